#!/usr/bin/env python3
"""Markdown table of what the quick (evidence/) and thorough (evidence_thorough/) tiers covered."""
import json, glob, os
print("| check | quick: executions / states / wall | thorough: executions / states / wall |")
print("|---|---|---|")
for i in range(1,21):
    id=f"C{i:02d}"
    row=[id]
    for d in ("evidence","evidence_thorough"):
        p=f"/verif/{d}/{id}.json"
        if not os.path.exists(p): row.append("—"); continue
        v=json.load(open(p)); c=v["coverage"]
        ex=c.get("executions_per_build") or c.get("evaluations")
        extra=""
        if id=="C06": extra=f" ({c.get('programs')} programs)"
        if id=="C20": extra=f" x 3 builds"
        row.append(f"{ex:,}{extra} / {c['states']:,} / {v['wall_s']:.0f} s")
    print("| "+" | ".join(row)+" |")
