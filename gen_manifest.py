#!/usr/bin/env python3
"""Regenerates MANIFEST.json (kept in sync with what ./check implements)."""
import json, subprocess
props = [json.loads(l) for l in open('/verif/properties.jsonl')]
DONE = {
 'C01': ("greet-first/greet-once clauses of the sink monitor evaluated on every delivery of every execution", "3 C01"),
 'C02': ("at most one terminal message per probe subscription and nothing after it, on every execution", "3 C02"),
 'C03': ("no delivery begins after the probe began sending Terminate/Error (incl. mutual termination), on every execution", "3 C03"),
 'C04': ("puppet-source monitor: no message to an ended source, no double stop, no orphan at any quiescent state, <=1 subscription, none after the output is over, sink Error relayed unchanged through pass-through operators", "3 C04"),
 'C05': ("at the return of every upstream Error send made while the output is live: exactly one Error with the same Arc at every live sink, no Terminate, live siblings disposed", "3 C05"),
 'C07': ("after every upstream delivery the probe's data equals the list function of what the listenable puppet sent; completion timing clauses", "3 C07"),
 'C08': ("reference = ordered log of member sends; greeting, exactly-once arrival order, Pull broadcast, completion, late greeter disposed", "3 C08"),
 'C09': ("subscription times of members relative to completions, concatenation order, Pull re-issue, completion, no subscription after error/disposal", "3 C09"),
 'C10': ("reference = latest value per member; one tuple per datum iff all have a value, exact tuple, greeting, completion, Pull broadcast", "3 C10"),
 'C11': ("switch semantics: inner subscribed once per emission and pulled once on greeting, previous inner disposed first, data only from the newest inner, completion condition, Pull routing", "3 C11"),
 'C12': ("reference = attached set + upstream alive: subscription on first attach, exactly-once fan-out to the attached set, upstream disposed by the last detach only, restart after the end", "3 C12"),
 'C14': ("data <= pulls at every state; at every quiescent state without pending upstream answers every Pull has been answered", "3 C14"),
 'C15': ("prefix-in-order, no nested emission deliveries, one delivery per Pull, completion exactly on the Pull that finds exhaustion, next() calls <= Pulls and == deliveries", "3 C15"),
 'C16': ("virtual clock: every sleep asks for the period, one number per own timer expiry counting from 0 per subscription, none after disposal, spawn failure -> exactly one Error of the injected kind", "3 C16"),
 'C17': ("no top-level step of any explored execution unwinds with a payload that is not the harness's own", "3 C17"),
}
DONE.update({
 'C06': ("demand-driven reference interpreter: values seen by f, exactly one completion inside the subscribing call, Iterator::next calls per iterator; pipe! arities 2..6 vs manual application", "3 C06"),
 'C13': ("differential, no expected values: the two-subscription run projected onto each subscription must be reproducible by identity in the solo world — same menus at every choice point, identical traces", "3 C13"),
 'C18': ("under the baton scheduler: greeted exactly once; merge delivers each handed-in datum exactly once; combine tuples complete and made of values actually sent; no panic; exactly one terminal, and in the all-complete case no data delivery in progress at its entry and none later", "3 C18"),
 'C19': ("under the baton scheduler: at most n data at the sink, exactly one Terminate at the sink, exactly one (direct) / at most one per member (through merge!) upstream", "3 C19"),
 'C20': ("the same exhaustive exploration executed by three builds (no tracing / tracing / tracing + recording subscriber): per-world execution counts, state counts and order-independent digests over choices, full traces, closure-invocation counters must be equal", "3 C20"),
})
NA = {}
TECH = {
 'C06': "exhaustive enumeration of all pipelines up to a depth x all small inputs, real code vs reference interpreter",
 'C13': "stateless model checking of the two-subscription product world with a solo-replay differential oracle",
 'C18': "stateless model checking of real threads under a controlled (baton) scheduler, exhaustive up to a preemption bound (unbounded for the smallest configurations)",
 'C19': "stateless model checking of real threads under a controlled (baton) scheduler, exhaustive up to a preemption bound (unbounded for the smallest configurations)",
 'C20': "the same exhaustive choice-tree exploration run in three build configurations, digests compared",
}
NOTE = {
 'C18': "Trusted: interleavings are sequentially consistent at the granularity of the operators' shared-state accesses (feature `verif` stand-ins; every AtomicBool/AtomicUsize/ArcSwap access of merge/combine/take is a switch point) plus harness points (probe handler, disposed-flag read, thread start/exit/join); weaker-than-SC reorderings are out of reach; the scheduler's self-test (toy lost update) runs before every C18 check.",
 'C19': "Trusted: as C18 (sequentially consistent interleavings at the hooked accesses; preemption bound stated in the evidence).",
 'C20': "Trusted: the three builds come from the same harness sources; a TRACE-level subscriber that formats every field is installed in build (c) (the check verifies it recorded events); bounds as C17.",
 'C06': "Trusted: the reference interpreter (boring pull-based list semantics with demand counting); stage alphabet, parameters, inputs and depth as stated in the evidence.",
}
checks=[]
for p in props:
    i=p['id']
    if i not in DONE: continue
    what, ref = DONE[i]
    checks.append({
      "property_id": i,
      "quick_cmd": f"./check {i} --tier quick",
      "thorough_cmd": f"./check {i} --tier thorough",
      "evidence_file": f"/verif/evidence/{i}.json",
      "replay_cmd_template": f"./check {i} --replay {{path}}",
      "engine": "cbmc",
      "level_claimed": {
        "category": "model_checking",
        "text": f"Bounded exhaustive exploration of the real callbag closures: every environment behaviour (event order, puppet-source personalities, probe-sink reactions from inside every handler) up to a horizon of E top-level events and D deviations per execution, per world. Oracle: {what}. Every explored execution is an execution of the implementation; nothing is sampled.",
        "design_ref": f"DESIGN.md section {ref}"
      },
      "level_note": NOTE.get(i, "Trusted: the harness actors (puppets/probes/taps/mock nursery) are spec-conformant and deterministic (replays are checked for identical traces); bounds E/D/burst/data budget and the small integer alphabet as stated in the evidence; an execution is not examined beyond its first violation."),
      "technique": TECH.get(i, "stateless explicit-execution model checking (exhaustive deviation-bounded DFS over environment choices, real code as transition function)")
    })
m = {
 "version": 1,
 "setup_cmd": "./setup",
 "hooks": {
   "guard": "cargo feature `verif` of the callbag crate",
   "enable": "the harness crate depends on callbag by path (harness/repo -> /repo); ./check builds the `verif` variant with `--features verif` (callbag/verif) into /verif/target/verif",
   "baseline_off_cmd": "cd /repo && cargo test --workspace --no-fail-fast --offline",
   "source_commits": ["585ff51", "cce3249"],
   "add_only": True
 },
 "engines": [
   {"name": "cbmc", "path": "/verif/harness", "serves_properties": [c["property_id"] for c in checks],
    "kind_free_text": "own stateless model checker: choice-tree DFS (iterative deviation bounding) running the real callbag closures against puppet sources, probe sinks, taps and a mock nursery with a virtual clock; 16 worker threads; replayable counterexamples"}
 ],
 "checks": checks,
 "not_applicable": [{"property_id": k, "reason": v} for k,v in NA.items()],
 "notes": "Exit codes of ./check: 0 held on everything explored (KNOWN-FINDING lines possible), 1 VIOLATION, 2 machinery fault (build error, nondeterministic replay, wall-clock cap) — never a verdict. known_findings.json is read-only at run time (all entries are `fixed`: eleven genuine defects were repaired in /repo, one `fix:` commit each). evidence/ is rewritten by every run; evidence_thorough/ keeps the evidence of the last complete thorough pass (./run_all.sh thorough). seeded/ holds 154 independently written, individually confirmed property-breaking changes with the checks that catch each (DESIGN.md section 10); ./seedrun <patch> [IDs] applies one to /repo, runs the quick checks and undoes it."
}
json.dump(m, open('/verif/MANIFEST.json','w'), indent=1)
print("wrote MANIFEST.json with", len(checks), "checks")
