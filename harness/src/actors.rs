//! Harness-made callbags: puppet sources (conformant by construction, personality chosen lazily by
//! the explorer), probe sinks (record + react), taps (transparent recorders).

use crate::exec::*;
use callbag::{Message, Sink, Source};
use never::Never;
use std::cell::RefCell;
use std::rc::Rc;
use std::sync::{Arc, Mutex};

#[derive(Debug)]
pub struct PErr(pub u32);
impl std::fmt::Display for PErr {
    fn fmt(&self, f: &mut std::fmt::Formatter<'_>) -> std::fmt::Result {
        write!(f, "harness error #{}", self.0)
    }
}
impl std::error::Error for PErr {}

pub fn new_err() -> (Arc<dyn std::error::Error + Send + Sync>, u16) {
    with(|ex| {
        let id = ex.errs.len();
        let e: Arc<dyn std::error::Error + Send + Sync> = Arc::new(PErr(id as u32));
        ex.errs.push(e.clone());
        (e, id as u16)
    })
}

pub fn sum_up<T>(m: &Message<Never, T>) -> M {
    match m {
        Message::Handshake(_) => M::Hs,
        Message::Data(_) => M::Data(Val::I(-1)),
        Message::Pull => M::Pull,
        Message::Error(e) => M::Err(with(|ex| ex.err_id(e))),
        Message::Terminate => M::Term,
    }
}

pub fn sum_down<T>(m: &Message<T, Never>, recf: &(dyn Fn(&T) -> Val)) -> M {
    match m {
        Message::Handshake(_) => M::Hs,
        Message::Data(x) => M::Data(recf(x)),
        Message::Pull => M::Pull,
        Message::Error(e) => M::Err(with(|ex| ex.err_id(e))),
        Message::Terminate => M::Term,
    }
}

// ------------------------------------------------------------------------------------------------
// World runtime registry (per thread): type-erased drivers for the top-level events.

pub trait PuppetDrive: Send + Sync {
    fn drive(&self, s: u16, ev: EvId);
    fn clear(&self);
}

pub trait ProbeDrive: Send + Sync {
    fn act(&self, code: u8);
    fn clear(&self);
}

#[derive(Default)]
pub struct WorldRt {
    pub subscribe: Option<Rc<dyn Fn(u8)>>,
    pub probes: Vec<Option<Arc<dyn ProbeDrive>>>,
    pub puppets: Vec<Option<Arc<dyn PuppetDrive>>>,
    pub nursery: Option<crate::nursery::MockNursery>,
    /// keep-alive for anything else the world needs
    pub extra: Vec<Box<dyn std::any::Any>>,
}

thread_local! {
    pub static WORLD: RefCell<Option<Rc<RefCell<WorldRt>>>> = const { RefCell::new(None) };
}

pub fn world() -> Rc<RefCell<WorldRt>> {
    WORLD.with(|w| w.borrow().as_ref().expect("no world").clone())
}

pub fn has_world() -> bool {
    WORLD.with(|w| w.borrow().is_some())
}

pub fn register_probe(p: u8, d: Arc<dyn ProbeDrive>) {
    if !has_world() {
        return;
    }
    let w = world();
    let mut w = w.borrow_mut();
    while w.probes.len() <= p as usize {
        w.probes.push(None);
    }
    w.probes[p as usize] = Some(d);
}

pub fn register_puppet(j: u8, d: Arc<dyn PuppetDrive>) {
    if !has_world() {
        return;
    }
    let w = world();
    let mut w = w.borrow_mut();
    while w.puppets.len() <= j as usize {
        w.puppets.push(None);
    }
    w.puppets[j as usize] = Some(d);
}

pub fn probe_driver(p: u8) -> Option<Arc<dyn ProbeDrive>> {
    let w = world();
    let w = w.borrow();
    w.probes.get(p as usize).and_then(|x| x.clone())
}

pub fn puppet_driver(j: u8) -> Option<Arc<dyn PuppetDrive>> {
    let w = world();
    let w = w.borrow();
    w.puppets.get(j as usize).and_then(|x| x.clone())
}

// ------------------------------------------------------------------------------------------------
// Puppet source

pub type MkFn<T> = Box<dyn Fn(u16, u8) -> (T, Val) + Send + Sync>;

pub struct Puppet<T> {
    pub j: u8,
    mk: MkFn<T>,
    sinks: Mutex<Vec<(u16, Arc<Sink<T>>)>>,
}

/// values of puppet j: 10*j + k, k = 1, 2, 3, ...
pub fn int_puppet(j: u8) -> Arc<Puppet<i64>> {
    Puppet::new(j, Box::new(move |_s, k| {
        // the third datum of puppet 0 is 0 (= i64::default(), and the seed of one scan world): code
        // that treats a default / seed-valued datum specially must not go unnoticed
        let v = if j == 0 && k == 3 { 0 } else { 10 * j as i64 + k as i64 };
        (v, Val::I(v))
    }))
}

impl<T: Send + Sync + 'static> Puppet<T> {
    pub fn new(j: u8, mk: MkFn<T>) -> Arc<Self> {
        let p = Arc::new(Puppet { j, mk, sinks: Mutex::new(Vec::new()) });
        register_puppet(j, Arc::new(p.clone()));
        p
    }

    pub fn source(self: &Arc<Self>) -> Source<T> {
        let me = self.clone();
        (move |m: Message<Never, T>| match m {
            Message::Handshake(sink) => me.on_subscribe(sink),
            _ => {
                // a source function proper only understands Handshake
                rec(Ev::Stray(Actor::Sub(u16::MAX)));
            },
        })
        .into()
    }

    fn sink_of(&self, s: u16) -> Arc<Sink<T>> {
        let g = self.sinks.lock().unwrap_or_else(|e| e.into_inner());
        g.iter().find(|(x, _)| *x == s).expect("unknown puppet subscription").1.clone()
    }

    fn mode(&self) -> PMode {
        with(|ex| ex.cfg.modes.get(self.j as usize).copied().unwrap_or(PMode::Mixed))
    }

    fn on_subscribe(self: &Arc<Self>, sink: Arc<Sink<T>>) {
        let j = self.j;
        let (s, late_allowed) = with(|ex| {
            while ex.puppet_subs.len() <= j as usize {
                ex.puppet_subs.push(0);
            }
            let k = ex.puppet_subs[j as usize];
            ex.puppet_subs[j as usize] += 1;
            ex.subs.push(SubSt {
                puppet: j,
                k,
                greeted: false,
                sent_terminal: false,
                recv_terminal: false,
                sent_data: 0,
                deferred: 0,
                pulls_recv: 0,
            });
            let late = if ex.cfg.late.is_empty() { ex.cfg.late_greet } else { ex.cfg.late.get(j as usize).copied().unwrap_or(false) };
            ((ex.subs.len() - 1) as u16, late)
        });
        self.sinks.lock().unwrap_or_else(|e| e.into_inner()).push((s, sink));
        rec(Ev::In(Actor::Sub(s), M::Hs));
        let late = late_allowed
            && choose_opt(Kind::Dev, What::Greet(s), &[opt::NOW, opt::LATER]) == opt::LATER;
        if !late {
            self.greet(s);
            self.burst(s);
        }
        rec(Ev::Out(Actor::Sub(s)));
    }

    fn greet(self: &Arc<Self>, s: u16) {
        let over = with(|ex| {
            let st = &mut ex.subs[s as usize];
            if st.over() {
                true
            } else {
                st.greeted = true;
                false
            }
        });
        if over {
            return;
        }
        let me = self.clone();
        let tb: Arc<Source<T>> = Arc::new((move |m: Message<Never, T>| me.on_talkback(s, m)).into());
        let sink = self.sink_of(s);
        rec(Ev::Send(Actor::Sub(s), M::Hs));
        sink(Message::Handshake(tb));
        rec(Ev::Ret(Actor::Sub(s)));
    }

    fn burst(self: &Arc<Self>, s: u16) {
        let mode = self.mode();
        if mode == PMode::Pullable {
            return;
        }
        let n = with(|ex| ex.cfg.burst);
        for _ in 0..n {
            let (over, budget, perr) = with(|ex| {
                let st = &ex.subs[s as usize];
                (st.over() || !st.greeted, st.sent_data < ex.cfg.data_budget, ex.cfg.puppet_err)
            });
            if over {
                break;
            }
            let mut menu = vec![opt::NOTHING];
            if budget {
                menu.push(opt::DATA);
            }
            menu.push(opt::TERM);
            if perr {
                menu.push(opt::ERR);
            }
            match choose_opt(Kind::Dev, What::Burst(s), &menu) {
                opt::NOTHING => break,
                c => self.emit(s, c),
            }
        }
    }

    /// emit DATA / TERM / ERR on subscription s (no-op if the subscription is over)
    fn emit(self: &Arc<Self>, s: u16, code: u8) {
        let ok = with(|ex| {
            let st = &mut ex.subs[s as usize];
            if st.over() || !st.greeted {
                return None;
            }
            match code {
                opt::DATA => {
                    st.sent_data += 1;
                    Some(st.sent_data)
                },
                _ => {
                    st.sent_terminal = true;
                    Some(0)
                },
            }
        });
        let Some(k) = ok else { return };
        let sink = self.sink_of(s);
        match code {
            opt::DATA => {
                let (v, val) = (self.mk)(s, k);
                rec(Ev::Send(Actor::Sub(s), M::Data(val)));
                sink(Message::Data(v));
            },
            opt::TERM => {
                rec(Ev::Send(Actor::Sub(s), M::Term));
                sink(Message::Terminate);
            },
            opt::ERR => {
                let (e, id) = new_err();
                rec(Ev::Send(Actor::Sub(s), M::Err(id)));
                sink(Message::Error(e));
            },
            _ => unreachable!(),
        }
        rec(Ev::Ret(Actor::Sub(s)));
    }

    fn on_talkback(self: &Arc<Self>, s: u16, m: Message<Never, T>) {
        let ms = sum_up(&m);
        rec(Ev::In(Actor::Sub(s), ms));
        let was_over = with(|ex| {
            let nested = ex.open_puppet_sends > 0;
            let st = &mut ex.subs[s as usize];
            let was = st.over();
            match ms {
                M::Term | M::Err(_) => st.recv_terminal = true,
                M::Pull => st.pulls_recv += 1,
                _ => {},
            }
            (was, nested)
        });
        if let (M::Pull, (false, nested)) = (ms, was_over) {
            let mode = self.mode();
            let (budget, perr, no_nested) = with(|ex| {
                let st = &ex.subs[s as usize];
                (st.sent_data < ex.cfg.data_budget, ex.cfg.puppet_err, ex.cfg.no_nested_emit)
            });
            let quiet_only = no_nested && nested;
            let menu: Vec<u8> = match mode {
                PMode::Listenable => vec![opt::NOTHING],
                PMode::Mixed => {
                    let mut m = vec![opt::NOTHING];
                    if !quiet_only {
                        if budget {
                            m.push(opt::DATA);
                        }
                        m.push(opt::TERM);
                        if perr {
                            m.push(opt::ERR);
                        }
                    }
                    m.push(opt::DEFER);
                    if !quiet_only && budget {
                        m.push(opt::DATA_TERM);
                    }
                    m
                },
                PMode::Pullable => {
                    let mut m = vec![];
                    if !quiet_only {
                        if budget {
                            m.push(opt::DATA);
                        }
                        m.push(opt::TERM);
                        if perr {
                            m.push(opt::ERR);
                        }
                    }
                    m.push(opt::DEFER);
                    m
                },
            };
            match choose_opt(Kind::Dev, What::OnPull(s), &menu) {
                opt::NOTHING => {},
                opt::DEFER => {
                    with(|ex| ex.subs[s as usize].deferred += 1);
                    rec(Ev::Defer(s));
                },
                opt::DATA_TERM => {
                    self.emit(s, opt::DATA);
                    self.emit(s, opt::TERM);
                },
                c => self.emit(s, c),
            }
        }
        rec(Ev::Out(Actor::Sub(s)));
    }
}

impl<T: Send + Sync + 'static> PuppetDrive for Arc<Puppet<T>> {
    fn drive(&self, s: u16, ev: EvId) {
        match ev {
            EvId::SubGreet(_) => {
                self.greet(s);
                self.burst(s);
            },
            EvId::SubData(_) => self.emit(s, opt::DATA),
            EvId::SubTerm(_) => self.emit(s, opt::TERM),
            EvId::SubErr(_) => self.emit(s, opt::ERR),
            EvId::SubAnsData(_) | EvId::SubAnsTerm(_) | EvId::SubAnsErr(_) => {
                with(|ex| {
                    let st = &mut ex.subs[s as usize];
                    st.deferred = st.deferred.saturating_sub(1);
                });
                self.emit(
                    s,
                    match ev {
                        EvId::SubAnsData(_) => opt::DATA,
                        EvId::SubAnsTerm(_) => opt::TERM,
                        _ => opt::ERR,
                    },
                )
            },
            _ => unreachable!(),
        }
    }
    fn clear(&self) {
        self.sinks.lock().unwrap_or_else(|e| e.into_inner()).clear();
    }
}

// ------------------------------------------------------------------------------------------------
// Probe sink

pub type RecFn<T> = Arc<dyn Fn(&T) -> Val + Send + Sync>;

pub struct Probe<T> {
    pub p: u8,
    recf: RecFn<T>,
    tb: Mutex<Option<Arc<Source<T>>>>,
}

pub fn rec_i64() -> RecFn<i64> {
    Arc::new(|x: &i64| Val::I(*x))
}
pub fn rec_usize() -> RecFn<usize> {
    Arc::new(|x: &usize| Val::I(*x as i64))
}

impl<T: Send + Sync + 'static> Probe<T> {
    pub fn new(p: u8, recf: RecFn<T>) -> Arc<Self> {
        let pr = Arc::new(Probe { p, recf, tb: Mutex::new(None) });
        with(|ex| {
            ex.probe(p).subscribed = true;
        });
        register_probe(p, Arc::new(ProbeHandle(pr.clone())));
        pr
    }

    pub fn sink(self: &Arc<Self>) -> Arc<Sink<T>> {
        let me = self.clone();
        Arc::new((move |m: Message<T, Never>| me.on_msg(m)).into())
    }

    fn on_msg(self: &Arc<Self>, m: Message<T, Never>) {
        let p = self.p;
        let ms = sum_down(&m, &*self.recf);
        let keep = !with(|ex| ex.cfg.drop_talkback);
        if let (Message::Handshake(tb), true) = (&m, keep) {
            *self.tb.lock().unwrap_or_else(|e| e.into_inner()) = Some(tb.clone());
        }
        drop(m);
        rec(Ev::In(Actor::Probe(p), ms));
        with(|ex| {
            let st = ex.probe(p);
            match ms {
                M::Hs => {
                    st.has_tb = keep;
                    st.hs_recv += 1;
                },
                M::Data(_) => st.data_recv += 1,
                M::Term | M::Err(_) => st.recv_terminal = true,
                M::Pull => {},
            }
        });
        if matches!(ms, M::Hs | M::Data(_)) {
            self.react(MK::from(&ms));
        } else if ms.is_terminal() && with(|ex| ex.cfg.cross_dispose && ex.cfg.max_probes >= 2 && ex.cross_depth == 0) {
            // a sink that has just been told the end may still act on OTHER subscriptions: dispose
            // a sibling sink, attach a new one (up to two such actions inside the terminal handler)
            for round in 0..2 {
                let menu = with(|ex| {
                    let mut m = vec![opt::NOTHING];
                    for (q, qs) in ex.probes.iter().enumerate() {
                        if q != p as usize && qs.can_act() {
                            m.push(opt::DISPOSE_OTHER0 + q as u8);
                        }
                    }
                    let nsub = ex.probes.iter().filter(|x| x.subscribed).count();
                    if nsub < ex.cfg.max_probes as usize {
                        m.push(opt::SUBSCRIBE_NEXT);
                    }
                    m
                });
                if menu.len() < 2 {
                    break;
                }
                let mk = MK::from(&ms);
                let what = if round == 0 { What::React(p, mk) } else { What::React2(p, mk) };
                match choose_opt(Kind::Dev, what, &menu) {
                    opt::NOTHING => break,
                    opt::SUBSCRIBE_NEXT => {
                        let q = with(|ex| ex.probes.iter().filter(|x| x.subscribed).count()) as u8;
                        let f = world().borrow().subscribe.clone();
                        if let Some(f) = f {
                            with(|ex| ex.cross_depth += 1);
                            rec(Ev::Send(Actor::Probe(q), M::Hs));
                            f(q);
                            rec(Ev::Ret(Actor::Probe(q)));
                            with(|ex| ex.cross_depth -= 1);
                        }
                    },
                    c => {
                        if let Some(d) = probe_driver(c - opt::DISPOSE_OTHER0) {
                            with(|ex| ex.cross_depth += 1);
                            d.act(opt::TERM);
                            with(|ex| ex.cross_depth -= 1);
                        }
                    },
                }
            }
        } else if ms == M::Term && with(|ex| ex.cfg.pull_after_end && !ex.probes[p as usize].sent_terminal) {
            // C15: "every pattern of Pull": also a Pull from inside the completion handler
            if choose_opt(Kind::Dev, What::React(p, MK::Term), &[opt::NOTHING, opt::PULL]) == opt::PULL {
                self.act(opt::PULL);
            }
        }
        rec(Ev::Out(Actor::Probe(p)));
    }

    fn react(self: &Arc<Self>, mk: MK) {
        let p = self.p;
        let menu = with(|ex| {
            let cfg = &ex.cfg;
            if cfg.passive_handlers {
                return vec![];
            }
            let st = ex.probes[p as usize].clone();
            if !st.can_act() {
                return vec![];
            }
            let mut menu = vec![opt::NOTHING];
            if cfg.probe_pull && (!cfg.pull_discipline || st.pulls_sent < st.hs_recv + st.data_recv)
            {
                menu.push(opt::PULL);
            }
            menu.push(opt::TERM);
            if cfg.probe_err {
                menu.push(opt::ERR);
            }
            if cfg.cross_dispose {
                for (q, qs) in ex.probes.iter().enumerate() {
                    if q != p as usize && qs.can_act() {
                        menu.push(opt::DISPOSE_OTHER0 + q as u8);
                    }
                }
            }
            if cfg.nested_events && ex.cross_depth == 0 && !nested_candidates(ex).is_empty() {
                menu.push(opt::NESTED_EVENT);
            }
            if cfg.cross_act && ex.cross_depth == 0 {
                // the handler of one subscription's sink may synchronously drive another subscription
                for (q, qs) in ex.probes.iter().enumerate() {
                    if q != p as usize && qs.can_act() && cfg.probe_pull {
                        menu.push(opt::PULL_OTHER0 + q as u8);
                    }
                }
                let nsub = ex.probes.iter().filter(|x| x.subscribed).count();
                if nsub < cfg.max_probes as usize {
                    menu.push(opt::SUBSCRIBE_NEXT);
                }
            }
            menu
        });
        if menu.len() < 2 {
            return;
        }
        match choose_opt(Kind::Dev, What::React(p, mk), &menu) {
            opt::NOTHING => {},
            c if (opt::DISPOSE_OTHER0..opt::DISPOSE_OTHER0 + 6).contains(&c) => {
                if let Some(d) = probe_driver(c - opt::DISPOSE_OTHER0) {
                    d.act(opt::TERM);
                }
            },
            c if (opt::PULL_OTHER0..opt::PULL_OTHER0 + 6).contains(&c) => {
                if let Some(d) = probe_driver(c - opt::PULL_OTHER0) {
                    with(|ex| ex.cross_depth += 1);
                    d.act(opt::PULL);
                    with(|ex| ex.cross_depth -= 1);
                }
            },
            opt::NESTED_EVENT => {
                let cands = with(|ex| nested_candidates(ex));
                if !cands.is_empty() {
                    let k = if cands.len() == 1 {
                        0
                    } else {
                        let idx = with(|ex| {
                            ex.menus.push(cands.clone());
                            (ex.menus.len() - 1) as u32
                        });
                        choose_ex(cands.len(), Kind::Event, What::Nested(p), &[], idx, false)
                    };
                    let ev = cands[k];
                    if let EvId::SubGreet(s) | EvId::SubData(s) | EvId::SubTerm(s) | EvId::SubErr(s) = ev {
                        let j = with(|ex| {
                            ex.cross_depth += 1;
                            ex.subs[s as usize].puppet
                        });
                        rec(Ev::Nested(ev));
                        if let Some(d) = puppet_driver(j) {
                            d.drive(s, ev);
                        }
                        with(|ex| ex.cross_depth -= 1);
                    }
                }
            },
            opt::SUBSCRIBE_NEXT => {
                let q = with(|ex| ex.probes.iter().filter(|x| x.subscribed).count()) as u8;
                let f = world().borrow().subscribe.clone();
                if let Some(f) = f {
                    // a nested subscription: framed as "probe q sends Handshake" so that everything
                    // it creates is owned by subscription q
                    with(|ex| ex.cross_depth += 1);
                    rec(Ev::Send(Actor::Probe(q), M::Hs));
                    f(q);
                    rec(Ev::Ret(Actor::Probe(q)));
                    with(|ex| ex.cross_depth -= 1);
                }
            },
            opt::PULL => {
                self.act(opt::PULL);
                // a sink may do more than one thing inside one handler: Pull, then dispose
                let menu2 = with(|ex| {
                    let st = ex.probes[p as usize].clone();
                    if !st.can_act() {
                        return vec![];
                    }
                    let mut m = vec![opt::NOTHING, opt::TERM];
                    if ex.cfg.probe_err {
                        m.push(opt::ERR);
                    }
                    m
                });
                if menu2.len() >= 2 {
                    match choose_opt(Kind::Dev, What::React2(p, mk), &menu2) {
                        opt::NOTHING => {},
                        c => self.act(c),
                    }
                }
            },
            c => self.act(c),
        }
    }

    pub fn act(self: &Arc<Self>, code: u8) {
        let p = self.p;
        let tb = self.tb.lock().unwrap_or_else(|e| e.into_inner()).clone();
        let Some(tb) = tb else { return };
        let ok = with(|ex| {
            let extra = ex.cfg.pull_after_end;
            let st = ex.probe(p);
            let late_pull = extra && code == opt::PULL && st.has_tb && !st.sent_terminal;
            if !st.can_act() && !late_pull {
                return false;
            }
            match code {
                opt::PULL => st.pulls_sent += 1,
                _ => st.sent_terminal = true,
            }
            true
        });
        if !ok {
            return;
        }
        match code {
            opt::PULL => {
                rec(Ev::Send(Actor::Probe(p), M::Pull));
                tb(Message::Pull);
            },
            opt::TERM => {
                rec(Ev::Send(Actor::Probe(p), M::Term));
                tb(Message::Terminate);
            },
            opt::ERR => {
                let (e, id) = new_err();
                rec(Ev::Send(Actor::Probe(p), M::Err(id)));
                tb(Message::Error(e));
            },
            _ => unreachable!(),
        }
        rec(Ev::Ret(Actor::Probe(p)));
    }
}

struct ProbeHandle<T>(Arc<Probe<T>>);
impl<T: Send + Sync + 'static> ProbeDrive for ProbeHandle<T> {
    fn act(&self, code: u8) {
        self.0.act(code)
    }
    fn clear(&self) {
        *self.0.tb.lock().unwrap_or_else(|e| e.into_inner()) = None;
    }
}

/// upstream events a sink handler may trigger synchronously: spontaneous events of subscriptions
/// that are not themselves in the middle of a send (a source does not re-enter itself)
pub fn nested_candidates(ex: &Exec) -> Vec<EvId> {
    let mut sending: Vec<u16> = vec![];
    let mut depth: Vec<Option<u16>> = vec![];
    // reconstruct the open puppet sends of the current top-level event
    let start = ex.trace.iter().rposition(|e| matches!(e, Ev::Top(_))).unwrap_or(0);
    for ev in &ex.trace[start..] {
        match ev {
            Ev::Send(a, _) | Ev::In(a, _) => depth.push(if let Actor::Sub(s) = a { Some(*s) } else { None }),
            Ev::Ret(_) | Ev::Out(_) => {
                depth.pop();
            },
            _ => {},
        }
    }
    for d in depth.iter().flatten() {
        sending.push(*d);
    }
    let cfg = &ex.cfg;
    let mut v = vec![];
    for (s, st) in ex.subs.iter().enumerate() {
        let s = s as u16;
        if st.over() || (sending.contains(&s) && !cfg.self_reentrancy) {
            continue;
        }
        if !st.greeted {
            v.push(EvId::SubGreet(s));
            continue;
        }
        let mode = cfg.modes.get(st.puppet as usize).copied().unwrap_or(PMode::Mixed);
        if mode == PMode::Pullable {
            continue;
        }
        if st.sent_data < cfg.data_budget {
            v.push(EvId::SubData(s));
        }
        v.push(EvId::SubTerm(s));
        if cfg.puppet_err {
            v.push(EvId::SubErr(s));
        }
    }
    v
}

// ------------------------------------------------------------------------------------------------
// Tap: transparent pass-through that records both directions.

pub fn tap<T: Send + Sync + 'static>(t: u8, src: Arc<Source<T>>, recf: RecFn<T>) -> Source<T> {
    (move |m: Message<Never, T>| {
        if let Message::Handshake(sink) = m {
            let k = with(|ex| {
                while ex.tap_subs.len() <= t as usize {
                    ex.tap_subs.push(0);
                }
                let k = ex.tap_subs[t as usize];
                ex.tap_subs[t as usize] += 1;
                k
            });
            rec(Ev::In(Actor::TapUp(t, k), M::Hs));
            let recf = recf.clone();
            let wrapped: Arc<Sink<T>> = Arc::new(
                (move |m: Message<T, Never>| {
                    let ms = sum_down(&m, &*recf);
                    rec(Ev::In(Actor::TapDown(t, k), ms));
                    match m {
                        Message::Handshake(tb) => {
                            let wtb: Arc<Source<T>> = Arc::new(
                                (move |m: Message<Never, T>| {
                                    let ms = sum_up(&m);
                                    rec(Ev::In(Actor::TapUp(t, k), ms));
                                    tb(m);
                                    rec(Ev::Out(Actor::TapUp(t, k)));
                                })
                                .into(),
                            );
                            sink(Message::Handshake(wtb));
                        },
                        other => sink(other),
                    }
                    rec(Ev::Out(Actor::TapDown(t, k)));
                })
                .into(),
            );
            src(Message::Handshake(wrapped));
            rec(Ev::Out(Actor::TapUp(t, k)));
        }
    })
    .into()
}
