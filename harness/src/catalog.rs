//! Which worlds and which oracle decide which property, at which bounds.

use crate::exec::*;
use crate::explore::{Target, Viol};
use crate::oracles;
use crate::world::*;
use crate::worlds::*;
use std::collections::hash_map::DefaultHasher;
use std::hash::{Hash, Hasher};

pub type OracleFn = fn(&WorldSpec, &Exec) -> Option<Viol>;

pub struct WorldTarget {
    pub spec: WorldSpec,
    pub oracle: OracleFn,
    pub digest: bool,
}

impl Target for WorldTarget {
    fn name(&self) -> String {
        self.spec.name.clone()
    }
    fn run(&self, script: &[u16], script_n: &[u16], strict: bool) -> Exec {
        run_world(&self.spec, script, script_n, strict)
    }
    fn check(&self, ex: &Exec) -> Option<Viol> {
        if let Some(Fault::Divergence) = ex.fault {
            return Some(oracles::viol(
                &self.spec,
                "divergence",
                ex.trace.len().saturating_sub(1),
                "more than 10000 messages from a finite environment".into(),
            ));
        }
        (self.oracle)(&self.spec, ex)
    }
    fn outcome(&self, ex: &Exec) -> (u64, bool) {
        let mut h = DefaultHasher::new();
        let mut nontrivial = false;
        for ev in &ex.trace {
            match ev {
                Ev::In(Actor::Probe(_), m) | Ev::In(Actor::TapDown(..), m) => {
                    ev.hash(&mut h);
                    if m.is_data() || m.is_terminal() {
                        nontrivial = true;
                    }
                },
                Ev::In(Actor::Sub(_), _) | Ev::Call(..) => ev.hash(&mut h),
                _ => {},
            }
        }
        (h.finish(), nontrivial)
    }
    fn dev_bound(&self) -> u32 {
        self.spec.cfg.d
    }
    fn digest(&self, ex: &Exec) -> u64 {
        if !self.digest {
            return 0;
        }
        let mut h = DefaultHasher::new();
        ex.trace.hash(&mut h);
        ex.calls.hash(&mut h);
        ex.panicked.hash(&mut h);
        h.finish() | 1
    }
}

#[derive(Clone, Copy, PartialEq, Eq, Debug)]
pub enum Tier {
    Quick,
    Thorough,
}

fn unary_ops() -> Vec<Op> {
    vec![
        Op::Map,
        Op::Filter(Pred::Even),
        Op::Filter(Pred::Odd),
        Op::Filter(Pred::None),
        Op::Scan(0),
        Op::Take(1),
        Op::Take(2),
        Op::Take(3),
        Op::Skip(1),
        Op::Skip(2),
        Op::Skip(3),
    ]
}

/// (e, d) for a world family at a tier
fn bounds(op: &Op, tier: Tier) -> Vec<(u32, u32)> {
    let q = tier == Tier::Quick;
    match op {
        Op::FromIter(_) | Op::FromIterUnbounded => vec![if q { (6, 3) } else { (8, 4) }],
        Op::Interval(_) => vec![if q { (6, 2) } else { (8, 3) }],
        Op::Map | Op::Filter(_) | Op::Scan(_) | Op::Take(_) | Op::Skip(_) | Op::Comp(..) => {
            vec![if q { (5, 3) } else { (7, 4) }]
        },
        Op::ForEach(_) => vec![if q { (6, 3) } else { (8, 4) }],
        Op::Merge(n) | Op::Concat(n) | Op::Combine(n) => match n {
            0 | 1 => vec![if q { (5, 3) } else { (7, 4) }],
            2 => vec![if q { (4, 2) } else { (5, 3) }],
            _ => {
                if q {
                    vec![(3, 1)]
                } else {
                    vec![(4, 2)]
                }
            },
        },
        Op::Flatten => vec![if q { (4, 2) } else { (6, 3) }],
        Op::Share => vec![if q { (4, 2) } else { (6, 3) }],
    }
}

fn with_bounds(op: Op, tier: Tier, f: impl Fn(&mut WorldSpec)) -> Vec<WorldSpec> {
    bounds(&op, tier)
        .into_iter()
        .map(|(e, d)| {
            let mut s = spec(op.clone(), e, d);
            f(&mut s);
            s.name = format!("{} E={} D={}", s.name, s.cfg.e, s.cfg.d);
            s
        })
        .collect()
}

/// The worlds shared by the protocol properties C01-C05 and C17.
pub fn proto_worlds(tier: Tier, with_foreach: bool, with_sources: bool) -> Vec<WorldSpec> {
    let mut v = vec![];
    if with_sources {
        for xs in [vec![], vec![1], vec![1, 2], vec![1, 2, 3]] {
            v.extend(with_bounds(Op::FromIter(xs), tier, |_| {}));
        }
        v.extend(with_bounds(Op::FromIterUnbounded, tier, |_| {}));
        v.extend(with_bounds(Op::Interval(7), tier, |s| s.cfg.max_probes = 2));
    }
    for op in unary_ops() {
        v.extend(with_bounds(op, tier, |_| {}));
    }
    for n in 0..=3 {
        v.extend(with_bounds(Op::Merge(n), tier, |_| {}));
        v.extend(with_bounds(Op::Concat(n), tier, |_| {}));
        if n >= 1 {
            v.extend(with_bounds(Op::Combine(n), tier, |_| {}));
        }
    }
    v.extend(with_bounds(Op::Flatten, tier, |_| {}));
    for probes in 1..=3u8 {
        v.extend(with_bounds(Op::Share, tier, move |s| {
            s.cfg.max_probes = probes;
            s.cfg.cross_dispose = probes >= 2;
            s.name = format!("{} x{}", s.name, probes);
            if probes == 3 {
                s.cfg.d = s.cfg.d.saturating_sub(1).max(1);
                s.cfg.e = s.cfg.e.min(5);
            }
        }));
    }
    if with_foreach {
        v.extend(with_bounds(Op::ForEach(None), tier, |_| {}));
        for op in [Op::Map, Op::Filter(Pred::Even), Op::Scan(0), Op::Take(2), Op::Skip(1)] {
            v.extend(with_bounds(Op::ForEach(Some(Box::new(op))), tier, |_| {}));
        }
    }
    v
}

pub struct CheckDef {
    pub id: &'static str,
    pub worlds: Vec<WorldSpec>,
    pub oracle: OracleFn,
}

pub fn check_def(id: &str, tier: Tier) -> Option<CheckDef> {
    use oracles::proto::*;
    Some(match id {
        "C01" => CheckDef { id: "C01", worlds: proto_worlds(tier, false, true), oracle: c01 },
        "C02" => CheckDef { id: "C02", worlds: proto_worlds(tier, false, true), oracle: c02 },
        "C03" => CheckDef { id: "C03", worlds: proto_worlds(tier, false, true), oracle: c03 },
        "C04" => CheckDef { id: "C04", worlds: proto_worlds(tier, true, false), oracle: c04 },
        "C05" => CheckDef { id: "C05", worlds: proto_worlds(tier, false, false), oracle: c05 },
        "C17" => CheckDef { id: "C17", worlds: proto_worlds(tier, true, true), oracle: c17 },
        _ => return None,
    })
}
