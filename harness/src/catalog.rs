//! Which worlds and which oracle decide which property, at which bounds.

use crate::exec::*;
use crate::explore::{Target, Viol};
use crate::oracles;
use crate::world::*;
use crate::worlds::*;
use std::collections::hash_map::DefaultHasher;
use std::hash::{Hash, Hasher};

pub type OracleFn = fn(&WorldSpec, &Exec) -> Option<Viol>;

pub struct WorldTarget {
    pub spec: WorldSpec,
    pub oracle: OracleFn,
    pub digest: bool,
}

impl Target for WorldTarget {
    fn name(&self) -> String {
        self.spec.name.clone()
    }
    fn run(&self, script: &[u16], script_n: &[u16], strict: bool) -> Exec {
        run_world(&self.spec, script, script_n, strict)
    }
    fn check(&self, ex: &Exec) -> Option<Viol> {
        if let Some(Fault::Divergence) = ex.fault {
            return Some(oracles::viol(
                &self.spec,
                "divergence",
                ex.trace.len().saturating_sub(1),
                "more than 10000 messages from a finite environment".into(),
            ));
        }
        (self.oracle)(&self.spec, ex)
    }
    fn outcome(&self, ex: &Exec) -> (u64, bool) {
        let mut h = DefaultHasher::new();
        let mut nontrivial = false;
        for ev in &ex.trace {
            match ev {
                Ev::In(Actor::Probe(_), m) | Ev::In(Actor::TapDown(..), m) => {
                    ev.hash(&mut h);
                    if m.is_data() || m.is_terminal() {
                        nontrivial = true;
                    }
                },
                Ev::In(Actor::Sub(_), _) | Ev::Call(..) => ev.hash(&mut h),
                _ => {},
            }
        }
        (h.finish(), nontrivial)
    }
    fn dev_bound(&self) -> u32 {
        self.spec.cfg.d
    }
    fn bounds(&self) -> (u32, u32) {
        (self.spec.cfg.e, self.spec.cfg.d)
    }
    fn digest(&self, ex: &Exec) -> u64 {
        if !self.digest {
            return 0;
        }
        let mut h = DefaultHasher::new();
        ex.trace.hash(&mut h);
        ex.calls.hash(&mut h);
        ex.panicked.hash(&mut h);
        h.finish() | 1
    }
}

#[derive(Clone, Copy, PartialEq, Eq, Debug)]
pub enum Tier {
    Quick,
    Thorough,
}

fn unary_ops() -> Vec<Op> {
    vec![
        Op::Map,
        Op::Filter(Pred::Even),
        Op::Filter(Pred::Odd),
        Op::Filter(Pred::None),
        Op::Scan(0),
        Op::Take(0),
        Op::Take(1),
        Op::Take(2),
        Op::Take(3),
        Op::Skip(1),
        Op::Skip(2),
        Op::Skip(3),
    ]
}

/// (e, d) for a world family at a tier
fn bounds(op: &Op, tier: Tier) -> Vec<(u32, u32)> {
    let q = tier == Tier::Quick;
    match op {
        Op::FromIter(_) | Op::FromIterUnbounded => vec![if q { (8, 4) } else { (10, 6) }],
        Op::Interval(_) => vec![if q { (6, 2) } else { (7, 3) }],
        Op::Map | Op::Filter(_) | Op::Scan(_) | Op::Take(_) | Op::Skip(_) | Op::Comp(..) => {
            if q {
                vec![(7, 4)]
            } else {
                vec![(9, 5)]
            }
        },
        Op::ForEach(_) => vec![if q { (8, 4) } else { (10, 6) }],
        Op::Merge(n) | Op::Concat(n) | Op::Combine(n) => match n {
            0 | 1 => vec![if q { (7, 4) } else { (9, 5) }],
            2 => {
                if q {
                    vec![(5, 3)]
                } else {
                    vec![(7, 3), (6, 4)]
                }
            },
            _ => {
                if q {
                    vec![(4, 2)]
                } else {
                    vec![(5, 3)]
                }
            },
        },
        Op::Flatten => {
            if q {
                vec![(4, 3), (5, 2)]
            } else {
                vec![(6, 4)]
            }
        },
        Op::Share => {
            if q {
                vec![(5, 3)]
            } else {
                vec![(7, 4)]
            }
        },
        Op::Net(n) => {
            if q {
                vec![(4, 2)]
            } else if n.starts_with("share(") {
                vec![(5, 3)]
            } else {
                vec![(6, 3)]
            }
        },
    }
}

fn with_bounds(op: Op, tier: Tier, f: impl Fn(&mut WorldSpec)) -> Vec<WorldSpec> {
    bounds(&op, tier)
        .into_iter()
        .map(|(e, d)| {
            let mut s = spec(op.clone(), e, d);
            f(&mut s);
            s.name = format!("{} E={} D={}", s.name, s.cfg.e, s.cfg.d);
            s
        })
        .collect()
}

/// The worlds shared by the protocol properties C01-C05 and C17.
pub fn proto_worlds(tier: Tier, with_foreach: bool, with_sources: bool) -> Vec<WorldSpec> {
    let mut v = vec![];
    if with_sources {
        for xs in [vec![], vec![1], vec![1, 2], vec![1, 2, 3]] {
            v.extend(with_bounds(Op::FromIter(xs), tier, |_| {}));
        }
        v.extend(with_bounds(Op::FromIterUnbounded, tier, |_| {}));
        v.extend(with_bounds(Op::Interval(7000), tier, |s| s.cfg.max_probes = 2));
    }
    for op in unary_ops() {
        v.extend(with_bounds(op, tier, |_| {}));
    }
    for n in 0..=3 {
        v.extend(with_bounds(Op::Merge(n), tier, |_| {}));
        v.extend(with_bounds(Op::Concat(n), tier, |_| {}));
        if n >= 1 {
            v.extend(with_bounds(Op::Combine(n), tier, |_| {}));
        }
    }
    v.extend(with_bounds(Op::Flatten, tier, |_| {}));
    for probes in 1..=3u8 {
        v.extend(with_bounds(Op::Share, tier, move |s| {
            s.cfg.max_probes = probes;
            s.cfg.cross_dispose = probes >= 2;
            s.name = format!("{} x{}", s.name, probes);
            if probes == 3 {
                s.cfg.d = s.cfg.d.saturating_sub(1).max(1);
                s.cfg.e = s.cfg.e.min(6);
            }
            if probes == 1 {
                s.cfg.e += 1;
            }
        }));
    }
    // two-stage compositions and networks of several operators
    let bx = |o: Op| Box::new(o);
    for op in [
        Op::Comp(bx(Op::Take(2)), bx(Op::Filter(Pred::Even))),
        Op::Comp(bx(Op::Skip(1)), bx(Op::Take(2))),
        Op::Comp(bx(Op::Filter(Pred::Odd)), bx(Op::Scan(0))),
        Op::Comp(bx(Op::Take(1)), bx(Op::Skip(1))),
    ] {
        v.extend(with_bounds(op, tier, |s| {
            s.cfg.e = s.cfg.e.saturating_sub(1);
        }));
    }
    for n in crate::worlds::NETS {
        if n.starts_with("for_each(") && !with_foreach {
            continue;
        }
        v.extend(with_bounds(Op::Net(n), tier, |s| {
            if s.name.contains("share") {
                s.cfg.max_probes = 2;
                s.cfg.cross_dispose = true;
            }
            if s.name.contains("flatten") {
                s.cfg.inner_pool = 2;
            }
            // late greeting only for puppets that are (through tolerant pass-through stages) direct
            // members of a merge whose output is not behind share/concat
            if s.name.contains("take2(merge2)") || s.name.contains("merge2(map,skip1)") || s.name.contains("for_each(merge2)") {
                s.cfg.late = vec![true, true, false];
            } else if s.name.contains("merge2(.,concat2)") {
                s.cfg.late = vec![true, false, false];
            } else if s.name.contains("merge2(merge2,.)") {
                s.cfg.late = vec![true, true, true];
            }
        }));
    }
    // two subscriptions to the same output value (overlapping and sequential): state hoisted out of
    // the per-subscription closure shows up as a protocol violation of the second subscription
    for op in [
        Op::Scan(0),
        Op::Take(2),
        Op::Skip(1),
        Op::Filter(Pred::Even),
        Op::Merge(2),
        Op::Concat(2),
        Op::Combine(2),
        Op::Flatten,
    ] {
        let big = matches!(op, Op::Merge(_) | Op::Concat(_) | Op::Combine(_) | Op::Flatten);
        let (e, d) = match (big, tier == Tier::Quick) {
            (false, true) => (5, 2),
            (false, false) => (7, 3),
            (true, true) => (4, 1),
            (true, false) => (5, 2),
        };
        let mut s = spec(op, e, d);
        s.cfg.max_probes = 2;
        s.cfg.data_budget = 2;
        s.cfg.nested_events = false;
        s.name = format!("{} x2 E={} D={}", s.name, e, d);
        v.push(s);
    }
    if with_sources {
        let (e, d) = if tier == Tier::Quick { (6, 3) } else { (8, 4) };
        let mut s = spec(Op::FromIter(vec![1, 2]), e, d);
        s.cfg.max_probes = 2;
        s.name = format!("{} x2 E={} D={}", s.name, e, d);
        v.push(s);
    }
    if with_foreach {
        v.extend(with_bounds(Op::ForEach(None), tier, |_| {}));
        for op in [Op::Map, Op::Filter(Pred::Even), Op::Scan(0), Op::Take(2), Op::Skip(1)] {
            v.extend(with_bounds(Op::ForEach(Some(Box::new(op))), tier, |_| {}));
        }
    }
    v
}

pub struct CheckDef {
    pub id: &'static str,
    pub worlds: Vec<WorldSpec>,
    pub oracle: OracleFn,
}

pub fn check_def(id: &str, tier: Tier) -> Option<CheckDef> {
    use oracles::proto::*;
    Some(match id {
        "C01" => CheckDef { id: "C01", worlds: proto_worlds(tier, false, true), oracle: c01 },
        "C02" => CheckDef { id: "C02", worlds: proto_worlds(tier, false, true), oracle: c02 },
        "C03" => CheckDef { id: "C03", worlds: proto_worlds(tier, false, true), oracle: c03 },
        "C04" => CheckDef { id: "C04", worlds: proto_worlds(tier, true, false), oracle: c04 },
        "C05" => CheckDef { id: "C05", worlds: proto_worlds(tier, false, false), oracle: c05 },
        "C17" => CheckDef { id: "C17", worlds: proto_worlds(tier, true, true), oracle: c17 },
        "C07" => CheckDef { id: "C07", worlds: c07_worlds(tier), oracle: oracles::sem::c07 },
        "C08" => CheckDef { id: "C08", worlds: fanin_worlds(tier, |n| Op::Merge(n)), oracle: oracles::sem::c08 },
        "C09" => CheckDef { id: "C09", worlds: fanin_worlds(tier, |n| Op::Concat(n)), oracle: oracles::sem::c09 },
        "C10" => CheckDef { id: "C10", worlds: fanin_worlds(tier, |n| Op::Combine(n)), oracle: oracles::sem::c10 },
        "C11" => CheckDef { id: "C11", worlds: c11_worlds(tier), oracle: oracles::sem::c11 },
        "C12" => CheckDef { id: "C12", worlds: c12_worlds(tier), oracle: oracles::sem::c12 },
        "C14" => CheckDef { id: "C14", worlds: c14_worlds(tier), oracle: oracles::sem::c14 },
        "C15" => CheckDef { id: "C15", worlds: c15_worlds(tier), oracle: oracles::sem::c15 },
        "C16" => CheckDef { id: "C16", worlds: c16_worlds(tier), oracle: oracles::sem::c16 },
        "C13" => CheckDef { id: "C13", worlds: c13_worlds(tier), oracle: oracles::c13::c13 },
        _ => return None,
    })
}

fn q(tier: Tier) -> bool {
    tier == Tier::Quick
}

pub fn c07_worlds(tier: Tier) -> Vec<WorldSpec> {
    let mut ops = vec![
        Op::Map,
        Op::Filter(Pred::Even),
        Op::Filter(Pred::Odd),
        Op::Filter(Pred::None),
        Op::Filter(Pred::All),
        Op::Filter(Pred::Gt1),
        Op::Scan(0),
        Op::Scan(7),
        Op::Scan(2),
    ];
    let maxn = if q(tier) { 3 } else { 4 };
    for n in 1..=maxn {
        ops.push(Op::Take(n));
        ops.push(Op::Skip(n));
    }
    let (e, d, budget) = if q(tier) { (9, 4, 4) } else { (11, 5, 5) };
    let mut v: Vec<WorldSpec> = ops
        .iter()
        .cloned()
        .map(|op| {
            let mut s = spec(op, e, d);
            s.cfg.modes = vec![PMode::Listenable];
            s.cfg.data_budget = budget;
            s.name = format!("{} listenable E={} D={}", s.name, e, d);
            s
        })
        .collect();
    // the same oracle with a source that may also answer Pulls (inside the call or later): the
    // operators must be the same list functions under push and under pull
    let (e, d) = if q(tier) { (6, 4) } else { (8, 5) };
    for op in ops {
        let mut s = spec(op, e, d);
        s.cfg.modes = vec![PMode::Mixed];
        s.cfg.data_budget = budget;
        s.name = format!("{} mixed E={} D={}", s.name, e, d);
        v.push(s);
    }
    v
}

pub fn fanin_worlds(tier: Tier, mk: impl Fn(usize) -> Op) -> Vec<WorldSpec> {
    let mut v = vec![];
    for n in 1..=3usize {
        let bs: Vec<(u32, u32)> = match (n, q(tier)) {
            (1, true) => vec![(7, 4)],
            (1, false) => vec![(9, 5)],
            (2, true) => {
                if matches!(mk(2), Op::Concat(_)) {
                    vec![(7, 3), (6, 4)]
                } else {
                    vec![(5, 3), (4, 4)]
                }
            },
            (2, false) => {
                if matches!(mk(2), Op::Concat(_)) {
                    vec![(8, 4), (7, 5)]
                } else {
                    vec![(7, 3), (6, 4)]
                }
            },
            (_, true) => {
                if matches!(mk(3), Op::Concat(_)) {
                    vec![(6, 3)]
                } else if matches!(mk(3), Op::Combine(_)) {
                    vec![(5, 2), (4, 3)]
                } else {
                    vec![(4, 2)]
                }
            },
            (_, false) => {
                if matches!(mk(3), Op::Concat(_)) {
                    vec![(7, 3), (6, 4)]
                } else {
                    vec![(5, 3)]
                }
            },
        };
        for (e, d) in bs {
            let mut s = spec(mk(n), e, d);
            s.name = format!("{} E={} D={}", s.name, e, d);
            v.push(s);
        }
    }
    v
}

pub fn c11_worlds(tier: Tier) -> Vec<WorldSpec> {
    let mut v = vec![];
    let bs: Vec<(u32, u32)> = if q(tier) { vec![(5, 3)] } else { vec![(7, 3), (6, 4)] };
    for (e, d) in bs {
        let mut s = spec(Op::Flatten, e, d);
        s.name = format!("{} E={} D={}", s.name, e, d);
        v.push(s);
    }
    v
}

pub fn c12_worlds(tier: Tier) -> Vec<WorldSpec> {
    let mut v = vec![];
    for probes in 1..=3u8 {
        let (e, d) = match (probes, q(tier)) {
            (1, true) => (8, 4),
            (1, false) => (10, 5),
            (2, true) => (6, 3),
            (2, false) => (8, 4),
            (_, true) => (6, 2),
            (_, false) => (8, 3),
        };
        let mut s = spec(Op::Share, e, d);
        s.cfg.max_probes = probes;
        s.cfg.no_nested_emit = probes >= 2;
        s.name = format!("{} x{} E={} D={}", s.name, probes, e, d);
        v.push(s);
    }
    // a sink may also dispose a sibling from inside its handlers and, once told the end, attach a
    // new sink from inside that handler (after the end means after the end began)
    for probes in 2..=3u8 {
        let (e, d) = if q(tier) { (5, 2) } else { (6, 3) };
        let mut s = spec(Op::Share, e, d);
        s.cfg.max_probes = probes;
        s.cfg.no_nested_emit = true;
        s.cfg.cross_dispose = true;
        s.name = format!("{} x{} cross E={} D={}", s.name, probes, e, d);
        v.push(s);
    }
    v
}

pub fn c14_worlds(tier: Tier) -> Vec<WorldSpec> {
    let mut ops = vec![
        Op::FromIter(vec![]),
        Op::FromIter(vec![1, 2]),
        Op::FromIter(vec![1, 2, 3]),
        Op::FromIterUnbounded,
        Op::Map,
        Op::Filter(Pred::Even),
        Op::Filter(Pred::Odd),
        Op::Filter(Pred::None),
        Op::Scan(0),
        Op::Take(1),
        Op::Take(2),
        Op::Skip(1),
        Op::Skip(2),
        Op::Concat(0),
        Op::Concat(1),
        Op::Concat(2),
        Op::Concat(3),
        Op::Flatten,
        Op::Net("concat2(fi,fi)"),
    ];
    let b = |o: Op| Box::new(o);
    ops.extend([
        Op::Comp(b(Op::Take(2)), b(Op::Filter(Pred::Even))),
        Op::Comp(b(Op::Take(1)), b(Op::Skip(1))),
        Op::Comp(b(Op::Filter(Pred::Odd)), b(Op::Skip(1))),
        Op::Comp(b(Op::Skip(1)), b(Op::Filter(Pred::Even))),
        Op::Comp(b(Op::Map), b(Op::Take(2))),
        Op::Comp(b(Op::Filter(Pred::Even)), b(Op::Take(2))),
        Op::Comp(b(Op::Scan(0)), b(Op::Filter(Pred::Odd))),
        Op::Comp(b(Op::Skip(1)), b(Op::Skip(1))),
    ]);
    ops.into_iter()
        .map(|op| {
            let (e, d) = match (&op, q(tier)) {
                (Op::Concat(3), true) | (Op::Flatten, true) => (10, 5),
                (Op::Concat(3), false) | (Op::Flatten, false) => (12, 6),
                (_, true) => (11, 6),
                (_, false) => (14, 7),
            };
            let mut s = spec(op, e, d);
            s.cfg.modes = vec![PMode::Pullable; 4];
            s.cfg.pull_discipline = true;
            s.cfg.nested_events = false;
            s.cfg.data_budget = 3;
            s.name = format!("{} pullable E={} D={}", s.name, e, d);
            s
        })
        .collect()
}

pub fn c15_worlds(tier: Tier) -> Vec<WorldSpec> {
    let mut lists: Vec<Vec<i64>> = vec![vec![]];
    let maxlen = if q(tier) { 4 } else { 5 };
    let mut frontier: Vec<Vec<i64>> = vec![vec![]];
    for _ in 0..maxlen {
        let mut next = vec![];
        for l in &frontier {
            for x in 1..=3 {
                let mut m = l.clone();
                m.push(x);
                next.push(m);
            }
        }
        lists.extend(next.iter().cloned());
        frontier = next;
    }
    let (e, d) = if q(tier) { (10, 5) } else { (13, 7) };
    let mut v: Vec<WorldSpec> = lists
        .into_iter()
        .map(|xs| {
            let mut s = spec(Op::FromIter(xs), e, d);
            s.cfg.pull_after_end = true;
            s.name = format!("{} E={} D={}", s.name, e, d);
            s
        })
        .collect();
    let mut s = spec(Op::FromIterUnbounded, e + 2, d + 1);
    s.name = format!("{} E={} D={}", s.name, e + 2, d + 1);
    v.push(s);
    v
}

pub fn c16_worlds(tier: Tier) -> Vec<WorldSpec> {
    let mut v = vec![];
    // periods in microseconds: 1 ms, 7 ms, and one with a sub-millisecond part
    for period in [1000u64, 7000, 1500] {
        for probes in 1..=3u8 {
            if period == 1500 && probes > 1 {
                continue;
            }
            let (e, d) = match (probes, q(tier)) {
                (1, true) => (9, 4),
                (1, false) => (11, 5),
                (2, true) => (7, 2),
                (2, false) => (8, 3),
                (_, true) => (6, 1),
                (_, false) => (8, 2),
            };
            let mut s = spec(Op::Interval(period), e, d);
            s.cfg.max_probes = probes;
            s.name = format!("{} x{} E={} D={}", s.name, probes, e, d);
            v.push(s);
        }
    }
    // pure listeners that do not keep the talkback they are greeted with
    let mut s = spec(Op::Interval(7000), 6, 1);
    s.cfg.max_probes = 2;
    s.cfg.drop_talkback = true;
    s.name = format!("{} x2 talkback-dropped E=6 D=1", s.name);
    v.push(s);
    v
}

/// All targets of a check in a fixed order (the worker processes index into this list).
pub fn targets_for(id: &str, tier: Tier) -> Option<Vec<Box<dyn Target>>> {
    use crate::threaded::*;
    if id == "C18" || id == "C19" || id == "SELFTEST" {
        let oracle: fn(&TSpec, &Exec) -> Option<Viol> = match id {
            "C18" => c18,
            "C19" => c19,
            _ => toy_oracle,
        };
        return Some(tworlds(id, tier).into_iter().map(|spec| Box::new(TTarget { spec, oracle }) as Box<dyn Target>).collect());
    }
    if id == "C20" {
        fn none(_: &WorldSpec, _: &Exec) -> Option<Viol> {
            None
        }
        return Some(c20_worlds(tier).into_iter().map(|spec| Box::new(WorldTarget { spec, oracle: none, digest: true }) as Box<dyn Target>).collect());
    }
    let def = check_def(id, tier)?;
    let oracle = def.oracle;
    Some(def.worlds.into_iter().map(|spec| Box::new(WorldTarget { spec, oracle, digest: false }) as Box<dyn Target>).collect())
}

pub fn tworlds(id: &str, tier: Tier) -> Vec<crate::threaded::TSpec> {
    use crate::threaded::*;
    let mut v = vec![];
    let mut add = |name: String, kind: TKind, d: u8, greet: bool, fail: Option<usize>, preempt: u32| {
        v.push(TSpec { name: format!("{name} d={d}{}{} P={}", if greet { " greet-in-thread" } else { "" }, fail.map(|f| format!(" member{f}-fails")).unwrap_or_default(), if preempt == u32::MAX { "unbounded".to_string() } else { preempt.to_string() }), kind, data_per_thread: d, greet_in_thread: greet, fail_member: fail, preempt });
    };
    let quick = q(tier);
    match id {
        "SELFTEST" => {
            add("toy load/store counter".into(), TKind::ToyCounter { atomic_rmw: false }, 2, false, None, 0);
            add("toy load/store counter".into(), TKind::ToyCounter { atomic_rmw: false }, 2, false, None, 1);
            add("toy load/store counter".into(), TKind::ToyCounter { atomic_rmw: false }, 2, false, None, u32::MAX);
            add("toy fetch_add counter".into(), TKind::ToyCounter { atomic_rmw: true }, 2, false, None, u32::MAX);
        },
        "C18" => {
            // (thorough: bound 4 took hours on combine/2 d=2; 3 everywhere, unbounded for d=1)
            let p = 3;
            for (kind, name) in [(TKind::Merge(2), "merge/2"), (TKind::Combine(2), "combine/2")] {
                add(name.into(), kind.clone(), 2, false, None, p);
                add(name.into(), kind.clone(), 2, true, None, if quick { 2 } else { 3 });
                add(name.into(), kind.clone(), 1, true, None, p);
                add(name.into(), kind.clone(), 1, false, Some(1), p);
                add(name.into(), kind.clone(), 2, false, Some(0), if quick { 2 } else { 3 });
                add(name.into(), kind.clone(), 1, false, None, u32::MAX);
                if !quick {
                    add(name.into(), kind.clone(), 3, false, None, 2);
                    add(name.into(), kind.clone(), 1, true, Some(0), 3);
                    add(name.into(), kind.clone(), 1, true, None, 4);
                    add(name.into(), kind.clone(), 2, false, None, 5);
                    add(name.into(), kind.clone(), 2, true, None, 4);
                    add(name.into(), kind.clone(), 1, true, None, 6);
                    if matches!(kind, TKind::Merge(_)) {
                        add(name.into(), kind.clone(), 2, false, None, 4);
                        add(name.into(), kind.clone(), 1, true, None, u32::MAX);
                        add(name.into(), kind.clone(), 2, false, None, u32::MAX);
                    }
                }
            }
            for (kind, name) in [(TKind::Merge(3), "merge/3"), (TKind::Combine(3), "combine/3")] {
                add(name.into(), kind.clone(), 1, false, None, if quick { 2 } else { 3 });
                add(name.into(), kind.clone(), 1, true, None, if quick { 1 } else { 2 });
                add(name.into(), kind.clone(), 1, false, Some(1), if quick { 2 } else { 3 });
                if !quick {
                    add(name.into(), kind.clone(), 2, false, None, 2);
                    add(name.into(), kind.clone(), 1, false, Some(2), 3);
                    add(name.into(), kind.clone(), 1, false, None, 4);
                    add(name.into(), kind.clone(), 1, true, None, 3);
                }
            }
        },
        "C19" => {
            let p = if quick { 3 } else { 4 };
            for n in 1..=3usize {
                add(format!("take({n}) direct x2"), TKind::TakeDirect { n, threads: 2 }, 2, false, None, p);
                add(format!("take({n}) direct x3"), TKind::TakeDirect { n, threads: 3 }, 1, false, None, if quick { 2 } else { 3 });
                add(format!("take({n}) . merge/2"), TKind::TakeMerge { n, members: 2 }, 2, false, None, p);
                add(format!("take({n}) . merge/3"), TKind::TakeMerge { n, members: 3 }, 1, false, None, 2);
                if n <= 2 {
                    add(format!("take({n}) direct x2"), TKind::TakeDirect { n, threads: 2 }, 1, false, None, u32::MAX);
                }
                if !quick {
                    add(format!("take({n}) direct x2"), TKind::TakeDirect { n, threads: 2 }, 2, false, None, u32::MAX);
                    add(format!("take({n}) direct x2"), TKind::TakeDirect { n, threads: 2 }, 3, false, None, 3);
                    add(format!("take({n}) . merge/3"), TKind::TakeMerge { n, members: 3 }, 1, false, None, 3);
                    add(format!("take({n}) . merge/3"), TKind::TakeMerge { n, members: 3 }, 2, false, None, 2);
                    if n <= 2 {
                        add(format!("take({n}) . merge/2"), TKind::TakeMerge { n, members: 2 }, 1, false, None, u32::MAX);
                    }
                }
            }
        },
        _ => {},
    }
    v
}

pub fn c13_worlds(tier: Tier) -> Vec<WorldSpec> {
    let ops: Vec<(Op, u32, u32)> = vec![
        (Op::FromIter(vec![1, 2, 3]), 7, 3),
        (Op::FromIterUnbounded, 6, 3),
        (Op::Interval(7000), 6, 2),
        (Op::Map, 5, 2),
        (Op::Filter(Pred::Even), 5, 2),
        (Op::Scan(0), 5, 2),
        (Op::Take(2), 5, 2),
        (Op::Skip(1), 5, 2),
        (Op::Merge(2), 4, 1),
        (Op::Concat(2), 4, 2),
        (Op::Concat(0), 4, 2),
        (Op::Combine(2), 4, 1),
        (Op::Flatten, 4, 1),
        (Op::ForEach(None), 6, 2),
        (Op::ForEach(Some(Box::new(Op::Scan(0)))), 5, 2),
    ];
    ops.into_iter()
        .map(|(op, e, d)| {
            let (e, d) = if q(tier) { (e, d) } else { (e + 1, d + 1) };
            let mut s = spec(op, e, d);
            s.cfg.max_probes = 2;
            s.cfg.data_budget = 2;
            s.cfg.cross_act = true;
            s.cfg.nested_events = false;
            s.name = format!("{} x2 E={} D={}", s.name, e, d);
            s
        })
        .collect()
}

/// C20 compares the three builds over the C17 worlds plus the semantic worlds of the unary
/// operators, interval and share at their quick bounds.
pub fn c20_worlds(tier: Tier) -> Vec<WorldSpec> {
    let mut v = proto_worlds(Tier::Quick, true, true);
    v.extend(c07_worlds(Tier::Quick));
    v.extend(c14_worlds(Tier::Quick));
    v.extend(c16_worlds(Tier::Quick));
    if tier == Tier::Quick {
        // the quick tier compares the builds on a shallower cut of the same worlds
        for s in v.iter_mut() {
            s.cfg.e = s.cfg.e.saturating_sub(1).max(2);
            s.cfg.d = s.cfg.d.saturating_sub(1).max(1);
            let base = s.name.split(" E=").next().unwrap_or("").to_string();
            s.name = format!("{} E={} D={}", base, s.cfg.e, s.cfg.d);
        }
    }
    v
}
