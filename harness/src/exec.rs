//! One execution = a deterministic function of a finite sequence of choices.
//! `Exec` is the per-execution context: the script being replayed, the choices taken, the trace of
//! everything the harness actors saw and did, and the bookkeeping state of probes / puppet
//! subscriptions that the event loop needs to compute the enabled events.

use std::cell::RefCell;
use std::sync::{Arc, Mutex, MutexGuard};

#[derive(Clone, Copy, Debug, PartialEq, Eq, Hash, PartialOrd, Ord)]
pub enum Val {
    I(i64),
    /// tuple of arity n (combine)
    T(u8, [i64; 3]),
    /// a source (flatten outer datum): inner puppet id
    Src(u8),
}

/// Message summary (what crossed an observation point).
#[derive(Clone, Copy, Debug, PartialEq, Eq, Hash)]
pub enum M {
    Hs,
    Data(Val),
    Pull,
    /// error id: index in `Exec::errs` (identity by `Arc::ptr_eq`), or 1000+n for foreign errors
    Err(u16),
    Term,
}

impl M {
    pub fn is_terminal(&self) -> bool {
        matches!(self, M::Err(_) | M::Term)
    }
    pub fn is_data(&self) -> bool {
        matches!(self, M::Data(_))
    }
}

#[derive(Clone, Copy, Debug, PartialEq, Eq, Hash)]
pub enum Actor {
    Probe(u8),
    /// puppet subscription, global index into `Exec::subs`
    Sub(u16),
    /// tap t, subscription k: message travelling down (source -> sink)
    TapDown(u8, u8),
    /// tap t, subscription k: message travelling up (sink -> source)
    TapUp(u8, u8),
    /// nursery task
    Task(u8),
}

/// Top-level environment events.
#[derive(Clone, Copy, Debug, PartialEq, Eq, Hash)]
pub enum EvId {
    Subscribe(u8),
    ProbePull(u8),
    ProbeTerm(u8),
    ProbeErr(u8),
    SubGreet(u16),
    SubData(u16),
    SubTerm(u16),
    SubErr(u16),
    SubAnsData(u16),
    SubAnsTerm(u16),
    SubAnsErr(u16),
    Fire(u8),
    Poll(u8),
}

#[derive(Clone, Copy, Debug, PartialEq, Eq, Hash)]
pub enum Ev {
    /// a top-level event begins
    Top(EvId),
    /// harness actor's handler entered with msg
    In(Actor, M),
    /// handler returns
    Out(Actor),
    /// harness actor calls into the code under test
    Send(Actor, M),
    /// that call returned
    Ret(Actor),
    /// a user closure (map's f, filter's predicate, for_each's f, Iterator::next) was invoked
    Call(u8, i64),
    /// nursery: spawn requested (task id, accepted?)
    Spawn(u8, bool),
    /// nursery: sleep requested by task with duration in ms
    Sleep(u8, u64),
    /// the code under test panicked inside this top-level event
    Panic,
    /// a source function (not a talkback) received a non-handshake message
    Stray(Actor),
    /// a puppet subscription deferred its answer to a Pull
    Defer(u16),
    /// a probe handler synchronously triggered this upstream event
    Nested(EvId),
}

#[derive(Clone, Copy, Debug, PartialEq, Eq, Hash)]
pub enum Kind {
    Event,
    Dev,
    Sched,
}

/// What a choice was about (for labels and for the C13 projection).
#[derive(Clone, Copy, Debug, PartialEq, Eq, Hash)]
pub enum What {
    Event,
    /// probe p reacting inside its handler for message kind
    React(u8, MK),
    /// probe p: second action inside the same handler invocation (after a Pull)
    React2(u8, MK),
    /// puppet subscription: greet now or later
    Greet(u16),
    /// puppet subscription: greeting burst step
    Burst(u16),
    /// puppet subscription: reaction to a Pull
    OnPull(u16),
    /// flatten outer: which inner to emit
    Pick(u16),
    /// nursery: spawn outcome
    SpawnRes(u8),
    /// thread scheduler
    Sched,
    /// which upstream event a probe handler triggers synchronously
    Nested(u8),
}

#[derive(Clone, Copy, Debug, PartialEq, Eq, Hash)]
pub enum MK {
    Hs,
    Data,
    Pull,
    Err,
    Term,
}

impl From<&M> for MK {
    fn from(m: &M) -> MK {
        match m {
            M::Hs => MK::Hs,
            M::Data(_) => MK::Data,
            M::Pull => MK::Pull,
            M::Err(_) => MK::Err,
            M::Term => MK::Term,
        }
    }
}

/// Option codes (menu entries) of non-event choices.
pub mod opt {
    pub const NOTHING: u8 = 0;
    pub const PULL: u8 = 1;
    pub const TERM: u8 = 2;
    pub const ERR: u8 = 3;
    pub const DATA: u8 = 4;
    pub const DEFER: u8 = 5;
    pub const NOW: u8 = 6;
    pub const LATER: u8 = 7;
    /// answer a Pull with the next datum immediately followed by the completion
    pub const DATA_TERM: u8 = 9;
    pub const DISPOSE_OTHER0: u8 = 10; // +q
    pub const INNER0: u8 = 16; // +inner
    pub const PULL_OTHER0: u8 = 40; // +q
    pub const SUBSCRIBE_NEXT: u8 = 48;
    /// the handler synchronously causes another upstream subscription to act (greet/emit/end)
    pub const NESTED_EVENT: u8 = 49;
    pub const OK: u8 = 32;
    pub const FAIL_SPAWN: u8 = 33;
    pub const FAIL_CLOSED: u8 = 34;
    pub const THREAD0: u8 = 64; // +thread
    pub fn name(c: u8) -> String {
        match c {
            NOTHING => "nothing".into(),
            PULL => "Pull".into(),
            TERM => "Terminate".into(),
            ERR => "Error".into(),
            DATA => "Data".into(),
            DEFER => "defer".into(),
            NOW => "now".into(),
            LATER => "later".into(),
            DATA_TERM => "Data+Terminate".into(),
            10..=15 => format!("dispose-probe{}", c - 10),
            16..=31 => format!("inner{}", c - 16),
            40..=47 => format!("pull-on-probe{}", c - 40),
            SUBSCRIBE_NEXT => "subscribe-next-probe".into(),
            NESTED_EVENT => "nested-upstream-event".into(),
            OK => "ok".into(),
            FAIL_SPAWN => "fail-Spawn".into(),
            FAIL_CLOSED => "fail-Closed".into(),
            64..=127 => format!("T{}", c - 64),
            _ => format!("opt{}", c),
        }
    }
}

#[derive(Clone, Debug)]
pub struct ChoiceRec {
    pub n: u16,
    pub pick: u16,
    pub kind: Kind,
    pub what: What,
    /// trace length when the choice was made
    pub tpos: u32,
    /// menu (option codes for Dev choices; index into `Exec::menus` for events)
    pub menu: [u8; 8],
    pub menu_idx: u32,
    /// extra cost of each non-zero alternative (Sched: preemption or not is per alternative; we
    /// store whether the running thread was still enabled)
    pub cur_enabled: bool,
}

#[derive(Clone, Debug, Default)]
pub struct ProbeSt {
    pub subscribed: bool,
    pub has_tb: bool,
    pub recv_terminal: bool,
    pub sent_terminal: bool,
    pub pulls_sent: u32,
    pub hs_recv: u32,
    pub data_recv: u32,
}

impl ProbeSt {
    pub fn can_act(&self) -> bool {
        self.has_tb && !self.recv_terminal && !self.sent_terminal
    }
}

#[derive(Clone, Copy, Debug, PartialEq, Eq)]
pub enum PMode {
    /// ignores Pulls; emits spontaneously (top-level events and greeting bursts)
    Listenable,
    /// may do anything conformant: ignore / answer now / defer a Pull, emit spontaneously, burst
    Mixed,
    /// pullable discipline: exactly one answer (Data or end) per Pull, inside the call or
    /// deferred; nothing unrequested
    Pullable,
}

#[derive(Clone, Debug)]
pub struct SubSt {
    pub puppet: u8,
    /// k-th subscription of this puppet
    pub k: u8,
    pub greeted: bool,
    /// began to send a terminal message
    pub sent_terminal: bool,
    /// began to receive a terminal message
    pub recv_terminal: bool,
    pub sent_data: u8,
    pub deferred: u8,
    pub pulls_recv: u32,
}

impl SubSt {
    pub fn over(&self) -> bool {
        self.sent_terminal || self.recv_terminal
    }
}

#[derive(Clone, Debug, Default)]
pub struct TaskSt {
    pub alive: bool,
    pub sleeping: bool,
    pub fires: u32,
}

/// Per-world configuration consulted by the actors.
#[derive(Clone, Debug)]
pub struct Cfg {
    pub e: u32,
    pub d: u32,
    pub preempt: u32,
    pub burst: u8,
    pub data_budget: u8,
    pub modes: Vec<PMode>,
    pub late_greet: bool,
    /// if non-empty: per-puppet permission to greet late (overrides `late_greet`)
    pub late: Vec<bool>,
    /// probe may pull (anywhere)
    pub probe_pull: bool,
    /// at most one Pull per message (handshake/data) received
    pub pull_discipline: bool,
    pub probe_err: bool,
    pub max_probes: u8,
    pub cross_dispose: bool,
    /// probe handlers may pull on / subscribe another probe (C13: nested overlap of subscriptions)
    pub cross_act: bool,
    /// probe handlers may synchronously trigger an event of another (not currently sending) upstream
    pub nested_events: bool,
    /// nested events may also come from the subscription that is in the middle of a send
    /// (subject-like sources: the sink's handler makes the very source it listens to emit or end)
    pub self_reentrancy: bool,
    /// the probe is a pure listener that does not keep the talkback it is greeted with
    pub drop_talkback: bool,
    /// C15 only: the sink may keep pulling after (and from inside the handler of) the completion
    pub pull_after_end: bool,
    /// puppet may fail (emit Error)
    pub puppet_err: bool,
    /// spawn failure alternatives offered by the mock nursery
    pub spawn_fail: bool,
    /// share worlds with 2+ probes: puppet never emits from inside a delivery (defers answers)
    pub no_nested_emit: bool,
    /// probes never react from inside handlers
    pub passive_handlers: bool,
    /// number of inner puppets in the pool (flatten)
    pub inner_pool: u8,
}

impl Default for Cfg {
    fn default() -> Self {
        Cfg {
            e: 4,
            d: 2,
            preempt: 0,
            burst: 2,
            data_budget: 3,
            modes: vec![],
            late_greet: false,
            late: vec![],
            probe_pull: true,
            pull_discipline: false,
            probe_err: true,
            max_probes: 1,
            cross_dispose: false,
            cross_act: false,
            nested_events: false,
            pull_after_end: false,
            drop_talkback: false,
            self_reentrancy: false,
            puppet_err: true,
            spawn_fail: false,
            no_nested_emit: false,
            passive_handlers: false,
            inner_pool: 0,
        }
    }
}

#[derive(Clone, Debug, PartialEq, Eq)]
pub enum Fault {
    /// replay prefix did not match (harness nondeterminism)
    Nondet(String),
    /// more than MAX_MSGS messages in one execution
    Divergence,
    /// internal error of the harness
    Internal(String),
}

pub const MAX_MSGS: usize = 10_000;

/// One choice of a projected history, in the naming of the solo world.
#[derive(Clone, Debug)]
pub struct GuideRec {
    pub kind: Kind,
    pub what: What,
    pub n: u16,
    pub pick: u16,
    pub menu: [u8; 8],
    /// for Event choices: the event that was taken
    pub target: Option<EvId>,
}

/// Typed panic payload used by the harness itself to unwind an execution.
pub struct HarnessAbort;

pub struct Exec {
    pub cfg: Cfg,
    pub script: Vec<u16>,
    /// expected `n` for each scripted choice (0 = unknown)
    pub script_n: Vec<u16>,
    pub strict: bool,
    pub choices: Vec<ChoiceRec>,
    pub menus: Vec<Vec<EvId>>,
    pub trace: Vec<Ev>,
    pub probes: Vec<ProbeSt>,
    pub subs: Vec<SubSt>,
    pub tasks: Vec<TaskSt>,
    pub errs: Vec<Arc<dyn std::error::Error + Send + Sync>>,
    pub foreign_errs: Vec<String>,
    pub fault: Option<Fault>,
    pub panicked: bool,
    pub panic_msg: Option<String>,
    pub msgs: usize,
    /// current nesting depth of harness-actor handlers / sends
    pub depth: u32,
    /// per-puppet subscription counter
    pub puppet_subs: Vec<u8>,
    /// Call counters per closure id
    pub calls: Vec<u32>,
    pub open_puppet_sends: u32,
    pub tap_subs: Vec<u8>,
    /// guided (scripted by identity) replay: C13 solo runs
    pub guide: Option<std::collections::VecDeque<GuideRec>>,
    pub guide_mismatch: Option<String>,
    /// a cross-subscription action (C13) is in progress
    pub cross_depth: u32,
    /// threaded worlds: recording thread of each trace event (parallel to `trace`)
    pub tids: Vec<u8>,
}

impl Exec {
    pub fn new(cfg: Cfg, script: Vec<u16>, script_n: Vec<u16>, strict: bool) -> Exec {
        Exec {
            cfg,
            script,
            script_n,
            strict,
            choices: Vec::with_capacity(32),
            menus: Vec::with_capacity(12),
            trace: Vec::with_capacity(128),
            probes: Vec::new(),
            subs: Vec::new(),
            tasks: Vec::new(),
            errs: Vec::new(),
            foreign_errs: Vec::new(),
            fault: None,
            panicked: false,
            panic_msg: None,
            msgs: 0,
            depth: 0,
            puppet_subs: Vec::new(),
            calls: Vec::new(),
            open_puppet_sends: 0,
            tap_subs: Vec::new(),
            guide: None,
            guide_mismatch: None,
            cross_depth: 0,
            tids: Vec::new(),
        }
    }

    pub fn devs_used(&self) -> u32 {
        self.choices.iter().filter(|c| c.kind == Kind::Dev && c.pick != 0).count() as u32
    }

    pub fn probe(&mut self, p: u8) -> &mut ProbeSt {
        let p = p as usize;
        while self.probes.len() <= p {
            self.probes.push(ProbeSt::default());
        }
        &mut self.probes[p]
    }

    pub fn err_id(&mut self, e: &Arc<dyn std::error::Error + Send + Sync>) -> u16 {
        for (i, x) in self.errs.iter().enumerate() {
            if Arc::ptr_eq(x, e) {
                return i as u16;
            }
        }
        let s = format!("{}", e);
        self.foreign_errs.push(s);
        1000 + (self.foreign_errs.len() - 1) as u16
    }
}

thread_local! {
    static CUR: RefCell<Option<Arc<Mutex<Exec>>>> = const { RefCell::new(None) };
}

pub fn install(ex: Arc<Mutex<Exec>>) {
    CUR.with(|c| *c.borrow_mut() = Some(ex));
}

pub fn uninstall() -> Option<Arc<Mutex<Exec>>> {
    CUR.with(|c| c.borrow_mut().take())
}

pub fn current() -> Arc<Mutex<Exec>> {
    CUR.with(|c| c.borrow().as_ref().expect("no execution installed on this thread").clone())
}

pub fn has_current() -> bool {
    CUR.with(|c| c.borrow().is_some())
}

fn lock(m: &Mutex<Exec>) -> MutexGuard<'_, Exec> {
    m.lock().unwrap_or_else(|e| e.into_inner())
}

/// Run `f` with the current execution locked. Never call into the code under test from `f`.
pub fn with<R>(f: impl FnOnce(&mut Exec) -> R) -> R {
    CUR.with(|c| {
        let b = c.borrow();
        let m = b.as_ref().expect("no execution installed on this thread");
        let mut g = lock(m);
        f(&mut g)
    })
}

pub fn abort() -> ! {
    std::panic::resume_unwind(Box::new(HarnessAbort))
}

pub fn fault(f: Fault) -> ! {
    with(|ex| {
        if ex.fault.is_none() {
            ex.fault = Some(f)
        }
    });
    abort()
}

/// Record a trace event.
pub fn rec(ev: Ev) {
    let too_many = with(|ex| {
        ex.trace.push(ev);
        match ev {
            Ev::In(..) => ex.msgs += 1,
            Ev::Send(a, _) => {
                ex.msgs += 1;
                if let Actor::Sub(_) = a {
                    ex.open_puppet_sends += 1;
                }
            },
            Ev::Ret(Actor::Sub(_)) => ex.open_puppet_sends = ex.open_puppet_sends.saturating_sub(1),
            _ => {},
        }
        ex.msgs > MAX_MSGS
    });
    if too_many {
        fault(Fault::Divergence);
    }
}

/// The single source of nondeterminism. Returns a pick in `0..n`. `menu` holds option codes.
pub fn choose(n: usize, kind: Kind, what: What, menu: &[u8]) -> usize {
    choose_ex(n, kind, what, menu, u32::MAX, false)
}

pub fn choose_ex(
    n: usize,
    kind: Kind,
    what: What,
    menu: &[u8],
    menu_idx: u32,
    cur_enabled: bool,
) -> usize {
    debug_assert!(n >= 1);
    let r = with(|ex| {
        let idx = ex.choices.len();
        let mut pick = 0u16;
        if ex.guide.is_some() {
            let g = ex.guide.as_mut().unwrap().pop_front();
            let Some(g) = g else {
                ex.guide_mismatch = Some(format!("the solo run reached an extra choice point {what:?} (n={n}) after its projected history was exhausted"));
                return Err(String::new());
            };
            if g.kind != kind || g.what != what {
                ex.guide_mismatch = Some(format!("the solo run reached choice point {what:?} where the projected history has {:?}", g.what));
                return Err(String::new());
            }
            match g.target {
                Some(t) => {
                    let menu_ev = &ex.menus[menu_idx as usize];
                    match menu_ev.iter().position(|e| *e == t) {
                        Some(i) => pick = i as u16,
                        None => {
                            ex.guide_mismatch = Some(format!("event {t:?} taken in the two-subscription run is not enabled in the solo run (enabled: {menu_ev:?})"));
                            return Err(String::new());
                        },
                    }
                },
                None => {
                    let mut m = [0u8; 8];
                    for (i, c) in menu.iter().take(8).enumerate() {
                        m[i] = *c;
                    }
                    if g.n as usize != n || g.menu != m {
                        ex.guide_mismatch = Some(format!("choice point {what:?}: menu {:?} (n={}) in the two-subscription run, {:?} (n={n}) in the solo run", &g.menu[..(g.n as usize).min(8)], g.n, &m[..n.min(8)]));
                        return Err(String::new());
                    }
                    pick = g.pick;
                },
            }
        } else if idx < ex.script.len() {
            pick = ex.script[idx];
            let exp_n = ex.script_n.get(idx).copied().unwrap_or(0);
            if pick as usize >= n || (exp_n != 0 && exp_n as usize != n) {
                return Err(format!(
                    "choice #{idx}: script pick {pick} (expected n={exp_n}) but menu has n={n} ({what:?})"
                ));
            }
        } else if ex.strict && !ex.script.is_empty() && n > 1 {
            // strict replays may run past the script: they then take choice 0 (quietest)
        }
        // deviation budget: beyond the script we always answer 0, so nothing to enforce here
        let mut m = [0u8; 8];
        for (i, c) in menu.iter().take(8).enumerate() {
            m[i] = *c;
        }
        let tpos = ex.trace.len() as u32;
        ex.choices.push(ChoiceRec {
            n: n as u16,
            pick,
            kind,
            what,
            tpos,
            menu: m,
            menu_idx,
            cur_enabled,
        });
        Ok(pick as usize)
    });
    match r {
        Ok(p) => p,
        Err(s) if s.is_empty() => abort(),
        Err(s) => fault(Fault::Nondet(s)),
    }
}

/// Choose among option codes; returns the chosen code. A single option is not a choice point.
pub fn choose_opt(kind: Kind, what: What, menu: &[u8]) -> u8 {
    if menu.len() == 1 {
        return menu[0];
    }
    menu[choose(menu.len(), kind, what, menu)]
}

pub fn render_choice(ex: &Exec, c: &ChoiceRec) -> String {
    let picked = match c.what {
        What::Event | What::Nested(_) => {
            let m = &ex.menus[c.menu_idx as usize];
            format!("{:?}", m[c.pick as usize])
        },
        _ => opt::name(c.menu[(c.pick as usize).min(7)]),
    };
    format!("{:?}:{}", c.what, picked)
}

pub fn render_trace(ex: &Exec) -> Vec<String> {
    let mut out = Vec::new();
    let mut depth = 0usize;
    for ev in &ex.trace {
        match ev {
            Ev::Top(_) => depth = 0,
            Ev::Out(_) | Ev::Ret(_) => depth = depth.saturating_sub(1),
            _ => {},
        }
        let s = match ev {
            Ev::Top(e) => format!("== {:?}", e),
            Ev::In(a, m) => format!("{:?} <- {:?}", a, m),
            Ev::Out(a) => format!("{:?} done", a),
            Ev::Send(a, m) => format!("{:?} sends {:?}", a, m),
            Ev::Ret(a) => format!("{:?} send returned", a),
            other => format!("{:?}", other),
        };
        out.push(format!("{}{}", "  ".repeat(depth), s));
        match ev {
            Ev::In(..) | Ev::Send(..) => depth += 1,
            _ => {},
        }
    }
    out
}
