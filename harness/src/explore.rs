//! Stateless, exhaustive, deviation-bounded depth-first exploration of the choice tree.
//! Every execution re-runs the real code from scratch; a state is the history that reaches it.

use crate::exec::*;
use std::collections::hash_map::DefaultHasher;
use std::collections::{HashMap, HashSet};
use std::hash::{Hash, Hasher};
use std::sync::atomic::{AtomicBool, AtomicU64, AtomicUsize, Ordering};
use std::sync::{Arc, Mutex};
use std::time::{Duration, Instant};

#[derive(Clone, Debug)]
pub struct Viol {
    pub clause: String,
    /// trace index of the violating event (choices made after it are not expanded)
    pub at: usize,
    pub detail: String,
    /// signature: family/clause/predicate — used to match known findings and to de-duplicate
    pub sig: String,
}

/// Anything that can be explored: run one execution for a script, check it.
pub trait Target: Send + Sync {
    fn name(&self) -> String;
    fn run(&self, script: &[u16], script_n: &[u16], strict: bool) -> Exec;
    fn check(&self, ex: &Exec) -> Option<Viol>;
    /// hash of what the sinks observed (distinct outcomes) and whether the run is non-trivial
    fn outcome(&self, ex: &Exec) -> (u64, bool);
    fn dev_bound(&self) -> u32;
    fn preempt_bound(&self) -> u32 {
        u32::MAX
    }
    /// full digest of the execution (C20); 0 if unused
    fn digest(&self, _ex: &Exec) -> u64 {
        0
    }
}

#[derive(Clone, Debug)]
pub struct Found {
    pub viol: Viol,
    pub script: Vec<u16>,
    pub script_n: Vec<u16>,
    pub cost: (u32, usize),
    pub count: u64,
}

#[derive(Default, Debug, Clone)]
pub struct Stats {
    pub execs: u64,
    pub states: u64,
    pub events: u64,
    pub max_choices: usize,
    pub max_devs: u32,
    pub outcomes: HashSet<u64>,
    pub nontrivial: HashSet<u64>,
    pub found: HashMap<String, Found>,
    pub violating_execs: u64,
    pub panics: u64,
    pub divergences: u64,
    pub digest_sum: u64,
    pub digest_xor: u64,
    pub samples: Vec<Vec<String>>,
    pub machinery_fault: Option<String>,
    pub capped: bool,
    pub wall_s: f64,
}

impl Stats {
    pub fn merge(&mut self, o: Stats) {
        self.execs += o.execs;
        self.states += o.states;
        self.events += o.events;
        self.max_choices = self.max_choices.max(o.max_choices);
        self.max_devs = self.max_devs.max(o.max_devs);
        self.outcomes.extend(o.outcomes);
        self.nontrivial.extend(o.nontrivial);
        for (k, f) in o.found {
            match self.found.get_mut(&k) {
                Some(g) => {
                    g.count += f.count;
                    if (f.cost, &f.script) < (g.cost, &g.script) {
                        let c = g.count;
                        *g = f;
                        g.count = c;
                    }
                },
                None => {
                    self.found.insert(k, f);
                },
            }
        }
        self.violating_execs += o.violating_execs;
        self.panics += o.panics;
        self.divergences += o.divergences;
        self.digest_sum = self.digest_sum.wrapping_add(o.digest_sum);
        self.digest_xor ^= o.digest_xor;
        if self.samples.len() < 3 {
            for s in o.samples {
                if self.samples.len() < 3 {
                    self.samples.push(s);
                }
            }
        }
        if self.machinery_fault.is_none() {
            self.machinery_fault = o.machinery_fault;
        }
        self.capped |= o.capped;
    }
}

struct Shared<'a> {
    target: &'a dyn Target,
    queue: Mutex<Vec<(Vec<u16>, Vec<u16>)>>,
    qlen: AtomicUsize,
    inflight: AtomicUsize,
    stop: AtomicBool,
    deadline: Instant,
    want_queue: usize,
    execs: AtomicU64,
    want_samples: bool,
}

fn hash_of<T: Hash>(t: &T) -> u64 {
    let mut h = DefaultHasher::new();
    t.hash(&mut h);
    h.finish()
}

pub fn sample_of(ex: &Exec) -> Vec<String> {
    let mut v: Vec<String> =
        ex.choices.iter().map(|c| format!("[{}/{}] {}", c.pick, c.n, render_choice(ex, c))).collect();
    v.push("-- trace --".into());
    v.extend(render_trace(ex));
    v
}

fn explore_node(sh: &Shared, st: &mut Stats, script: Vec<u16>, script_n: Vec<u16>) {
    if sh.stop.load(Ordering::Relaxed) {
        return;
    }
    let t = sh.target;
    let ex = t.run(&script, &script_n, false);
    let n_exec = sh.execs.fetch_add(1, Ordering::Relaxed);
    if n_exec % 4096 == 0 && Instant::now() > sh.deadline {
        st.capped = true;
        sh.stop.store(true, Ordering::Relaxed);
    }
    st.execs += 1;
    let plen = script.len();
    // new tree nodes contributed by this execution
    st.states += (ex.choices.len() + 1 - plen.min(ex.choices.len())) as u64 - if plen > 0 { 0 } else { 0 };
    st.events += ex.trace.iter().filter(|e| matches!(e, Ev::Top(_))).count() as u64;
    st.max_choices = st.max_choices.max(ex.choices.len());
    let mut limit = usize::MAX;
    match &ex.fault {
        Some(Fault::Nondet(s)) => {
            st.machinery_fault = Some(format!("nondeterministic replay in {}: {}", t.name(), s));
            sh.stop.store(true, Ordering::Relaxed);
            return;
        },
        Some(Fault::Internal(s)) => {
            st.machinery_fault = Some(format!("internal harness error in {}: {}", t.name(), s));
            sh.stop.store(true, Ordering::Relaxed);
            return;
        },
        Some(Fault::Divergence) => st.divergences += 1,
        None => {},
    }
    if ex.panicked {
        st.panics += 1;
    }
    let (oh, nontrivial) = t.outcome(&ex);
    st.outcomes.insert(oh);
    if nontrivial {
        st.nontrivial.insert(oh);
    }
    let dg = t.digest(&ex);
    if dg != 0 {
        let picks: Vec<u16> = ex.choices.iter().map(|c| c.pick).collect();
        let h = hash_of(&(picks, dg));
        st.digest_sum = st.digest_sum.wrapping_add(h);
        st.digest_xor ^= h.rotate_left(17);
    }
    if sh.want_samples && st.samples.len() < 3 && nontrivial && ex.choices.len() >= 3 {
        st.samples.push(sample_of(&ex));
    }
    let devs_total = ex.devs_used();
    st.max_devs = st.max_devs.max(devs_total);
    if let Some(v) = t.check(&ex) {
        limit = v.at;
        st.violating_execs += 1;
        // minimal script: cut the choices made after the violating event
        let keep = ex.choices.iter().take_while(|c| (c.tpos as usize) <= v.at).count();
        let mut sc: Vec<u16> = ex.choices[..keep].iter().map(|c| c.pick).collect();
        let mut sn: Vec<u16> = ex.choices[..keep].iter().map(|c| c.n).collect();
        while sc.last() == Some(&0) {
            sc.pop();
            sn.pop();
        }
        let cost = (devs_total, sc.len());
        let f = Found { viol: v.clone(), script: sc, script_n: sn, cost, count: 1 };
        match st.found.get_mut(&v.sig) {
            Some(g) => {
                g.count += 1;
                if (f.cost, &f.script) < (g.cost, &g.script) {
                    let c = g.count;
                    *g = f;
                    g.count = c;
                }
            },
            None => {
                st.found.insert(v.sig.clone(), f);
            },
        }
    }
    // expand children
    let dbound = t.dev_bound();
    let pbound = t.preempt_bound();
    let mut devs = 0u32;
    let mut preempts = 0u32;
    for i in 0..ex.choices.len() {
        let c = &ex.choices[i];
        if i >= plen {
            if (c.tpos as usize) > limit {
                break;
            }
            for alt in 1..c.n {
                let (dc, pc) = match c.kind {
                    Kind::Event => (0, 0),
                    Kind::Dev => (1, 0),
                    Kind::Sched => (0, if c.cur_enabled { 1 } else { 0 }),
                };
                if devs + dc > dbound || preempts + pc > pbound {
                    continue;
                }
                let mut cs: Vec<u16> = ex.choices[..i].iter().map(|c| c.pick).collect();
                cs.push(alt);
                let mut cn: Vec<u16> = ex.choices[..=i].iter().map(|c| c.n).collect();
                cn.truncate(cs.len());
                if sh.qlen.load(Ordering::Relaxed) < sh.want_queue {
                    sh.inflight.fetch_add(1, Ordering::SeqCst);
                    sh.queue.lock().unwrap().push((cs, cn));
                    sh.qlen.fetch_add(1, Ordering::Relaxed);
                } else {
                    explore_node(sh, st, cs, cn);
                }
            }
        }
        if c.pick != 0 {
            match c.kind {
                Kind::Dev => devs += 1,
                Kind::Sched => {
                    if c.cur_enabled {
                        preempts += 1
                    }
                },
                Kind::Event => {},
            }
        }
    }
}

pub fn explore(target: &dyn Target, threads: usize, cap: Duration, want_samples: bool) -> Stats {
    let t0 = Instant::now();
    let sh = Shared {
        target,
        queue: Mutex::new(vec![(vec![], vec![])]),
        qlen: AtomicUsize::new(1),
        inflight: AtomicUsize::new(1),
        stop: AtomicBool::new(false),
        deadline: t0 + cap,
        want_queue: threads * 4,
        execs: AtomicU64::new(0),
        want_samples,
    };
    let total = Mutex::new(Stats::default());
    std::thread::scope(|sc| {
        for _ in 0..threads {
            sc.spawn(|| {
                let mut st = Stats::default();
                loop {
                    let job = {
                        let mut q = sh.queue.lock().unwrap();
                        let j = q.pop();
                        if j.is_some() {
                            sh.qlen.fetch_sub(1, Ordering::Relaxed);
                        }
                        j
                    };
                    match job {
                        Some((s, n)) => {
                            explore_node(&sh, &mut st, s, n);
                            sh.inflight.fetch_sub(1, Ordering::SeqCst);
                        },
                        None => {
                            if sh.inflight.load(Ordering::SeqCst) == 0 {
                                break;
                            }
                            std::thread::sleep(Duration::from_micros(50));
                        },
                    }
                }
                total.lock().unwrap().merge(st);
            });
        }
    });
    let mut st = total.into_inner().unwrap();
    st.wall_s = t0.elapsed().as_secs_f64();
    st
}

/// Replay a script strictly (every scripted choice must see the same menu size).
pub fn replay(target: &dyn Target, script: &[u16], script_n: &[u16]) -> Exec {
    target.run(script, script_n, true)
}
