//! Stateless, exhaustive, deviation-bounded depth-first exploration of the choice tree.
//! Every execution re-runs the real code from scratch; a state is the history that reaches it.
//!
//! Parallelism is by worker *processes* (arc-swap keeps process-global debt lists, which makes
//! threads of one process contend on every ArcSwap store/drop; separate processes also give back
//! the memory that the crate's own Arc cycles leak per subscription): the parent expands the top
//! of the tree breadth-first into a frontier of prefixes, workers explore the subtrees.

use crate::exec::*;
use serde_json::{json, Value};
use std::collections::hash_map::DefaultHasher;
use std::collections::{HashMap, HashSet, VecDeque};
use std::hash::{Hash, Hasher};
use std::io::{BufRead, BufReader, Write};
use std::process::{Child, ChildStdin, ChildStdout, Command, Stdio};
use std::sync::atomic::{AtomicUsize, Ordering};
use std::sync::Mutex;
use std::time::{Duration, Instant, SystemTime, UNIX_EPOCH};

#[derive(Clone, Debug)]
pub struct Viol {
    pub clause: String,
    /// trace index of the violating event (choices made after it are not expanded)
    pub at: usize,
    pub detail: String,
    /// signature: family/clause/predicate — used to match known findings and to de-duplicate
    pub sig: String,
}

/// Anything that can be explored: run one execution for a script, check it.
pub trait Target: Send + Sync {
    fn name(&self) -> String;
    fn run(&self, script: &[u16], script_n: &[u16], strict: bool) -> Exec;
    fn check(&self, ex: &Exec) -> Option<Viol>;
    /// hash of what the sinks observed (distinct outcomes) and whether the run is non-trivial
    fn outcome(&self, ex: &Exec) -> (u64, bool);
    fn dev_bound(&self) -> u32;
    fn preempt_bound(&self) -> u32 {
        u32::MAX
    }
    /// full digest of the execution (C20); 0 if unused
    fn digest(&self, _ex: &Exec) -> u64 {
        0
    }
    /// (E, D) for the evidence
    fn bounds(&self) -> (u32, u32);
}

#[derive(Clone, Debug)]
pub struct Found {
    pub viol: Viol,
    pub script: Vec<u16>,
    pub script_n: Vec<u16>,
    pub cost: (u32, usize),
    pub count: u64,
}

#[derive(Default, Debug, Clone)]
pub struct Stats {
    pub execs: u64,
    pub states: u64,
    pub events: u64,
    pub max_choices: usize,
    pub max_devs: u32,
    pub max_preempts: u32,
    pub outcomes: HashSet<u64>,
    pub nontrivial: HashSet<u64>,
    pub found: HashMap<String, Found>,
    pub violating_execs: u64,
    pub panics: u64,
    pub divergences: u64,
    pub digest_sum: u64,
    pub digest_xor: u64,
    pub samples: Vec<Vec<String>>,
    pub machinery_fault: Option<String>,
    pub capped: bool,
    pub wall_s: f64,
}

impl Stats {
    pub fn merge(&mut self, o: Stats) {
        self.execs += o.execs;
        self.states += o.states;
        self.events += o.events;
        self.max_choices = self.max_choices.max(o.max_choices);
        self.max_devs = self.max_devs.max(o.max_devs);
        self.max_preempts = self.max_preempts.max(o.max_preempts);
        self.outcomes.extend(o.outcomes);
        self.nontrivial.extend(o.nontrivial);
        for (k, f) in o.found {
            match self.found.get_mut(&k) {
                Some(g) => {
                    g.count += f.count;
                    if (f.cost, &f.script) < (g.cost, &g.script) {
                        let c = g.count;
                        *g = f;
                        g.count = c;
                    }
                },
                None => {
                    self.found.insert(k, f);
                },
            }
        }
        self.violating_execs += o.violating_execs;
        self.panics += o.panics;
        self.divergences += o.divergences;
        self.digest_sum = self.digest_sum.wrapping_add(o.digest_sum);
        self.digest_xor ^= o.digest_xor;
        for s in o.samples {
            if self.samples.len() < 3 {
                self.samples.push(s);
            }
        }
        if self.machinery_fault.is_none() {
            self.machinery_fault = o.machinery_fault;
        }
        self.capped |= o.capped;
    }

    pub fn to_json(&self) -> Value {
        let found: Vec<Value> = self
            .found
            .values()
            .map(|f| {
                json!({
                    "clause": f.viol.clause, "at": f.viol.at, "detail": f.viol.detail, "sig": f.viol.sig,
                    "script": f.script, "script_n": f.script_n, "cost0": f.cost.0, "cost1": f.cost.1, "count": f.count,
                })
            })
            .collect();
        json!({
            "execs": self.execs, "states": self.states, "events": self.events,
            "max_choices": self.max_choices, "max_devs": self.max_devs, "max_preempts": self.max_preempts,
            "outcomes": self.outcomes.iter().collect::<Vec<_>>(),
            "nontrivial": self.nontrivial.iter().collect::<Vec<_>>(),
            "found": found,
            "violating_execs": self.violating_execs, "panics": self.panics, "divergences": self.divergences,
            "digest_sum": self.digest_sum, "digest_xor": self.digest_xor,
            "samples": self.samples, "machinery_fault": self.machinery_fault, "capped": self.capped,
        })
    }

    pub fn from_json(v: &Value) -> Stats {
        let u = |k: &str| v[k].as_u64().unwrap_or(0);
        let set = |k: &str| -> HashSet<u64> {
            v[k].as_array().map(|a| a.iter().filter_map(|x| x.as_u64()).collect()).unwrap_or_default()
        };
        let vec16 = |x: &Value| -> Vec<u16> {
            x.as_array().map(|a| a.iter().map(|y| y.as_u64().unwrap_or(0) as u16).collect()).unwrap_or_default()
        };
        let mut found = HashMap::new();
        if let Some(a) = v["found"].as_array() {
            for f in a {
                let sig = f["sig"].as_str().unwrap_or("").to_string();
                found.insert(
                    sig.clone(),
                    Found {
                        viol: Viol {
                            clause: f["clause"].as_str().unwrap_or("").to_string(),
                            at: f["at"].as_u64().unwrap_or(0) as usize,
                            detail: f["detail"].as_str().unwrap_or("").to_string(),
                            sig,
                        },
                        script: vec16(&f["script"]),
                        script_n: vec16(&f["script_n"]),
                        cost: (f["cost0"].as_u64().unwrap_or(0) as u32, f["cost1"].as_u64().unwrap_or(0) as usize),
                        count: f["count"].as_u64().unwrap_or(0),
                    },
                );
            }
        }
        Stats {
            execs: u("execs"),
            states: u("states"),
            events: u("events"),
            max_choices: u("max_choices") as usize,
            max_devs: u("max_devs") as u32,
            max_preempts: u("max_preempts") as u32,
            outcomes: set("outcomes"),
            nontrivial: set("nontrivial"),
            found,
            violating_execs: u("violating_execs"),
            panics: u("panics"),
            divergences: u("divergences"),
            digest_sum: u("digest_sum"),
            digest_xor: u("digest_xor"),
            samples: v["samples"]
                .as_array()
                .map(|a| {
                    a.iter()
                        .map(|s| s.as_array().map(|l| l.iter().map(|x| x.as_str().unwrap_or("").to_string()).collect()).unwrap_or_default())
                        .collect()
                })
                .unwrap_or_default(),
            machinery_fault: v["machinery_fault"].as_str().map(|s| s.to_string()),
            capped: v["capped"].as_bool().unwrap_or(false),
            wall_s: 0.0,
        }
    }
}

fn hash_of<T: Hash>(t: &T) -> u64 {
    let mut h = DefaultHasher::new();
    t.hash(&mut h);
    h.finish()
}

pub fn sample_of(ex: &Exec) -> Vec<String> {
    let mut v: Vec<String> =
        ex.choices.iter().map(|c| format!("[{}/{}] {}", c.pick, c.n, render_choice(ex, c))).collect();
    v.push("-- trace --".into());
    v.extend(render_trace(ex));
    v
}

pub struct Ctl {
    pub deadline_epoch_s: u64,
    pub want_samples: bool,
    pub execs_since_check: u64,
}

fn now_epoch_s() -> u64 {
    SystemTime::now().duration_since(UNIX_EPOCH).map(|d| d.as_secs()).unwrap_or(0)
}

/// Run one node (execution) of the tree, account for it, and return its children (prefixes).
fn visit(
    t: &dyn Target,
    st: &mut Stats,
    ctl: &mut Ctl,
    script: &[u16],
    script_n: &[u16],
    children: &mut Vec<(Vec<u16>, Vec<u16>)>,
) {
    if st.capped || st.machinery_fault.is_some() {
        return;
    }
    ctl.execs_since_check += 1;
    if ctl.execs_since_check >= 2048 {
        ctl.execs_since_check = 0;
        if now_epoch_s() > ctl.deadline_epoch_s {
            st.capped = true;
            return;
        }
    }
    let ex = t.run(script, script_n, false);
    st.execs += 1;
    let plen = script.len();
    match &ex.fault {
        Some(Fault::Nondet(s)) => {
            st.machinery_fault = Some(format!("nondeterministic replay in {}: {}", t.name(), s));
            return;
        },
        Some(Fault::Internal(s)) => {
            st.machinery_fault = Some(format!("internal harness error in {}: {}", t.name(), s));
            return;
        },
        Some(Fault::Divergence) => st.divergences += 1,
        None => {},
    }
    if ex.choices.len() < plen {
        st.machinery_fault = Some(format!(
            "nondeterministic replay in {}: execution made {} choices, its prefix has {}",
            t.name(),
            ex.choices.len(),
            plen
        ));
        return;
    }
    // new tree nodes contributed by this execution: depths plen..=L (the root execution also
    // contributes the root node)
    st.states += (ex.choices.len() + 1 - plen) as u64;
    st.events += ex.trace.iter().filter(|e| matches!(e, Ev::Top(_))).count() as u64;
    st.max_choices = st.max_choices.max(ex.choices.len());
    if ex.panicked {
        st.panics += 1;
    }
    let (oh, nontrivial) = t.outcome(&ex);
    st.outcomes.insert(oh);
    if nontrivial {
        st.nontrivial.insert(oh);
    }
    let dg = t.digest(&ex);
    if dg != 0 {
        let picks: Vec<u16> = ex.choices.iter().map(|c| c.pick).collect();
        let h = hash_of(&(picks, dg));
        st.digest_sum = st.digest_sum.wrapping_add(h);
        st.digest_xor ^= h.rotate_left(17);
    }
    let devs_total = ex.devs_used();
    // samples: prefer histories with at least two deviations (nested reactions / non-default answers)
    if ctl.want_samples && st.samples.len() < 3 && nontrivial && ex.choices.len() >= 3 && (devs_total >= 2 || t.dev_bound() < 2) {
        st.samples.push(sample_of(&ex));
    }
    st.max_devs = st.max_devs.max(devs_total);
    let mut limit = usize::MAX;
    if let Some(v) = t.check(&ex) {
        limit = v.at;
        st.violating_execs += 1;
        // minimal script: cut the choices made after the violating event
        let keep = ex.choices.iter().take_while(|c| (c.tpos as usize) <= v.at).count();
        let mut sc: Vec<u16> = ex.choices[..keep].iter().map(|c| c.pick).collect();
        let mut sn: Vec<u16> = ex.choices[..keep].iter().map(|c| c.n).collect();
        while sc.last() == Some(&0) {
            sc.pop();
            sn.pop();
        }
        let cost = (devs_total, sc.len());
        let f = Found { viol: v.clone(), script: sc, script_n: sn, cost, count: 1 };
        match st.found.get_mut(&v.sig) {
            Some(g) => {
                g.count += 1;
                if (f.cost, &f.script) < (g.cost, &g.script) {
                    let c = g.count;
                    *g = f;
                    g.count = c;
                }
            },
            None => {
                st.found.insert(v.sig.clone(), f);
            },
        }
    }
    // children
    let dbound = t.dev_bound();
    let pbound = t.preempt_bound();
    let mut devs = 0u32;
    let mut preempts = 0u32;
    for i in 0..ex.choices.len() {
        let c = &ex.choices[i];
        if i >= plen {
            if (c.tpos as usize) > limit {
                break;
            }
            for alt in 1..c.n {
                let (dc, pc) = match c.kind {
                    Kind::Event => (0, 0),
                    Kind::Dev => (1, 0),
                    Kind::Sched => (0, if c.cur_enabled { 1 } else { 0 }),
                };
                if devs + dc > dbound || preempts + pc > pbound {
                    continue;
                }
                let mut cs: Vec<u16> = ex.choices[..i].iter().map(|c| c.pick).collect();
                cs.push(alt);
                let cn: Vec<u16> = ex.choices[..=i].iter().map(|c| c.n).collect();
                children.push((cs, cn));
            }
        }
        if c.pick != 0 {
            match c.kind {
                Kind::Dev => devs += 1,
                Kind::Sched => {
                    if c.cur_enabled {
                        preempts += 1
                    }
                },
                Kind::Event => {},
            }
        }
    }
    st.max_preempts = st.max_preempts.max(preempts);
}

/// Depth-first exploration of the whole subtree below (and including) one prefix, in-process.
pub fn explore_local(t: &dyn Target, st: &mut Stats, ctl: &mut Ctl, script: Vec<u16>, script_n: Vec<u16>) {
    let mut stack: Vec<(Vec<u16>, Vec<u16>)> = vec![(script, script_n)];
    let mut kids = Vec::new();
    while let Some((s, n)) = stack.pop() {
        kids.clear();
        visit(t, st, ctl, &s, &n, &mut kids);
        if st.capped || st.machinery_fault.is_some() {
            return;
        }
        // push in reverse so that the first child is explored first
        while let Some(k) = kids.pop() {
            stack.push(k);
        }
    }
}

/// Breadth-first expansion of the top of the tree until at least `want` subtrees are pending
/// (or the tree is exhausted). Returns the pending prefixes.
pub fn expand_frontier(
    t: &dyn Target,
    st: &mut Stats,
    ctl: &mut Ctl,
    want: usize,
) -> Vec<(Vec<u16>, Vec<u16>)> {
    let mut q: VecDeque<(Vec<u16>, Vec<u16>)> = VecDeque::new();
    q.push_back((vec![], vec![]));
    let mut kids = Vec::new();
    while q.len() < want {
        let Some((s, n)) = q.pop_front() else { break };
        kids.clear();
        visit(t, st, ctl, &s, &n, &mut kids);
        if st.capped || st.machinery_fault.is_some() {
            break;
        }
        for k in kids.drain(..) {
            q.push_back(k);
        }
    }
    q.into_iter().collect()
}

// ------------------------------------------------------------------------------------------------
// worker processes

pub struct Worker {
    child: Child,
    stdin: ChildStdin,
    stdout: BufReader<ChildStdout>,
    alive: bool,
}

pub struct Pool {
    pub workers: Vec<Option<Worker>>,
    pub args: Vec<String>,
    pub deadline_epoch_s: u64,
}

fn fmt_list(v: &[u16]) -> String {
    if v.is_empty() {
        return "-".into();
    }
    v.iter().map(|x| x.to_string()).collect::<Vec<_>>().join(",")
}

pub fn parse_list(s: &str) -> Vec<u16> {
    if s == "-" {
        return vec![];
    }
    s.split(',').filter(|x| !x.is_empty()).map(|x| x.parse().unwrap()).collect()
}

impl Pool {
    /// `args`: arguments that make this same binary act as a worker for the same check
    pub fn new(n: usize, args: Vec<String>, deadline_epoch_s: u64) -> Pool {
        Pool { workers: (0..n).map(|_| None).collect(), args, deadline_epoch_s }
    }

    fn spawn(&self) -> Result<Worker, String> {
        let exe = crate::self_exe();
        let mut child = Command::new(exe)
            .args(&self.args)
            .env("CBMC_DEADLINE", self.deadline_epoch_s.to_string())
            .stdin(Stdio::piped())
            .stdout(Stdio::piped())
            .stderr(Stdio::inherit())
            .spawn()
            .map_err(|e| format!("cannot spawn worker: {e}"))?;
        let stdin = child.stdin.take().unwrap();
        let stdout = BufReader::new(child.stdout.take().unwrap());
        Ok(Worker { child, stdin, stdout, alive: true })
    }

    /// Explore all `jobs` (subtree prefixes of target number `widx`) on the workers; returns the
    /// merged statistics of those subtrees.
    pub fn run(&mut self, widx: usize, jobs: Vec<(Vec<u16>, Vec<u16>)>) -> Stats {
        let next = AtomicUsize::new(0);
        let total = Mutex::new(Stats::default());
        let jobs = &jobs;
        let mut slots: Vec<Option<Worker>> = std::mem::take(&mut self.workers);
        let this = &*self;
        std::thread::scope(|sc| {
            for slot in slots.iter_mut() {
                let next = &next;
                let total = &total;
                sc.spawn(move || {
                    let mut local = Stats::default();
                    let fail = |local: &mut Stats, msg: String| {
                        if local.machinery_fault.is_none() {
                            local.machinery_fault = Some(msg);
                        }
                    };
                    loop {
                        let k = next.fetch_add(1, Ordering::Relaxed);
                        if k >= jobs.len() {
                            break;
                        }
                        if slot.is_none() {
                            match this.spawn() {
                                Ok(w) => *slot = Some(w),
                                Err(e) => {
                                    fail(&mut local, e);
                                    break;
                                },
                            }
                        }
                        let w = slot.as_mut().unwrap();
                        let line = format!("J {} {} {}\n", widx, fmt_list(&jobs[k].0), fmt_list(&jobs[k].1));
                        if w.stdin.write_all(line.as_bytes()).and_then(|_| w.stdin.flush()).is_err() {
                            fail(&mut local, "worker pipe closed".into());
                            *slot = None;
                            break;
                        }
                        // replies: OK | STATS json (then BYE)
                        let mut reply = String::new();
                        match w.stdout.read_line(&mut reply) {
                            Ok(0) | Err(_) => {
                                let code = w.child.wait().ok();
                                fail(&mut local, format!("worker died ({code:?}) while exploring a subtree"));
                                *slot = None;
                                break;
                            },
                            Ok(_) => {},
                        }
                        if reply.starts_with("STATS ") {
                            match serde_json::from_str::<Value>(&reply[6..]) {
                                Ok(v) => local.merge(Stats::from_json(&v)),
                                Err(e) => fail(&mut local, format!("bad worker reply: {e}")),
                            }
                            // the worker recycles itself
                            let mut bye = String::new();
                            let _ = w.stdout.read_line(&mut bye);
                            let _ = w.child.wait();
                            w.alive = false;
                            *slot = None;
                        } else if !reply.starts_with("OK") {
                            fail(&mut local, format!("unexpected worker reply: {}", reply.trim()));
                            break;
                        }
                    }
                    // flush
                    if let Some(w) = slot.as_mut() {
                        let ok = w.stdin.write_all(b"FLUSH\n").and_then(|_| w.stdin.flush()).is_ok();
                        let mut reply = String::new();
                        if ok && w.stdout.read_line(&mut reply).map(|n| n > 0).unwrap_or(false) && reply.starts_with("STATS ") {
                            match serde_json::from_str::<Value>(&reply[6..]) {
                                Ok(v) => local.merge(Stats::from_json(&v)),
                                Err(e) => fail(&mut local, format!("bad worker reply: {e}")),
                            }
                        } else {
                            fail(&mut local, "worker did not answer FLUSH".into());
                            *slot = None;
                        }
                    }
                    total.lock().unwrap().merge(local);
                });
            }
        });
        self.workers = slots;
        total.into_inner().unwrap()
    }

    pub fn shutdown(&mut self) {
        for w in self.workers.iter_mut() {
            if let Some(mut w) = w.take() {
                drop(w.stdin);
                let _ = w.child.wait();
            }
        }
    }
}

/// Worker side: serve jobs from stdin until EOF.
pub fn worker_loop(targets: &[Box<dyn Target>], recycle_after: u64) {
    let deadline = std::env::var("CBMC_DEADLINE").ok().and_then(|s| s.parse().ok()).unwrap_or(u64::MAX);
    let stdin = std::io::stdin();
    let mut out = std::io::stdout();
    let mut st = Stats::default();
    let mut ctl = Ctl { deadline_epoch_s: deadline, want_samples: true, execs_since_check: 0 };
    let mut lifetime_execs = 0u64;
    for line in stdin.lock().lines() {
        let Ok(line) = line else { break };
        let mut it = line.split_whitespace();
        match it.next() {
            Some("J") => {
                let widx: usize = it.next().unwrap().parse().unwrap();
                let script = parse_list(it.next().unwrap());
                let script_n = parse_list(it.next().unwrap());
                let before = st.execs;
                explore_local(&*targets[widx], &mut st, &mut ctl, script, script_n);
                lifetime_execs += st.execs - before;
                if lifetime_execs >= recycle_after {
                    let _ = writeln!(out, "STATS {}", st.to_json());
                    let _ = writeln!(out, "BYE");
                    let _ = out.flush();
                    return;
                }
                let _ = writeln!(out, "OK");
                let _ = out.flush();
            },
            Some("FLUSH") => {
                let _ = writeln!(out, "STATS {}", st.to_json());
                let _ = out.flush();
                st = Stats::default();
            },
            _ => {},
        }
    }
}

/// Explore one target completely: frontier in the parent, subtrees on the pool.
pub fn explore(
    t: &dyn Target,
    widx: usize,
    pool: &mut Pool,
    cap: Duration,
    want_samples: bool,
) -> Stats {
    let t0 = Instant::now();
    let deadline = now_epoch_s() + cap.as_secs();
    pool.deadline_epoch_s = pool.deadline_epoch_s.min(deadline).max(1);
    let mut st = Stats::default();
    let mut ctl = Ctl { deadline_epoch_s: deadline, want_samples, execs_since_check: 0 };
    let nworkers = pool.workers.len().max(1);
    let want = if nworkers <= 1 { usize::MAX } else { nworkers * 64 };
    let jobs = if nworkers <= 1 {
        explore_local(t, &mut st, &mut ctl, vec![], vec![]);
        vec![]
    } else {
        expand_frontier(t, &mut st, &mut ctl, want)
    };
    if !jobs.is_empty() && st.machinery_fault.is_none() && !st.capped {
        let sub = pool.run(widx, jobs);
        st.merge(sub);
    }
    st.wall_s = t0.elapsed().as_secs_f64();
    st
}

/// Replay a script strictly (every scripted choice must see the same menu size).
pub fn replay(target: &dyn Target, script: &[u16], script_n: &[u16]) -> Exec {
    target.run(script, script_n, true)
}
