mod actors;
mod catalog;
mod exec;
mod explore;
mod nursery;
mod oracles;
mod pipelines;
mod threaded;
mod tracesub;
mod world;
mod worlds;

use catalog::*;
use explore::*;
use serde_json::{json, Value};
use std::collections::BTreeMap;
use explore::parse_list;
use std::path::PathBuf;
use std::time::{Duration, Instant};

struct Args {
    cmd: String,
    id: String,
    tier: Tier,
    threads: usize,
    verif_dir: PathBuf,
    replay: Option<PathBuf>,
    cap_s: u64,
    only_world: Option<String>,
    verbose: bool,
    from: usize,
    to: usize,
    depth: usize,
    script: Vec<u16>,
}

fn parse_args() -> Args {
    let a: Vec<String> = std::env::args().collect();
    let mut args = Args {
        cmd: a.get(1).cloned().unwrap_or_default(),
        id: a.get(2).cloned().unwrap_or_default(),
        tier: Tier::Quick,
        threads: std::thread::available_parallelism().map(|n| n.get()).unwrap_or(8),
        verif_dir: std::env::var("VERIF_DIR").map(PathBuf::from).unwrap_or_else(|_| PathBuf::from("/verif")),
        replay: None,
        cap_s: 0,
        only_world: None,
        verbose: false,
        from: 0,
        to: 0,
        depth: 0,
        script: vec![],
    };
    if let Ok(t) = std::env::var("VERIF_TIER") {
        if t == "thorough" {
            args.tier = Tier::Thorough;
        }
    }
    let mut i = 3;
    while i < a.len() {
        match a[i].as_str() {
            "--tier" => {
                i += 1;
                args.tier = if a[i] == "thorough" { Tier::Thorough } else { Tier::Quick };
            },
            "--threads" => {
                i += 1;
                args.threads = a[i].parse().unwrap();
            },
            "--replay" => {
                i += 1;
                args.replay = Some(PathBuf::from(&a[i]));
            },
            "--cap" => {
                i += 1;
                args.cap_s = a[i].parse().unwrap();
            },
            "--world" => {
                i += 1;
                args.only_world = Some(a[i].clone());
            },
            "-v" => args.verbose = true,
            "--from" => {
                i += 1;
                args.from = a[i].parse().unwrap();
            },
            "--to" => {
                i += 1;
                args.to = a[i].parse().unwrap();
            },
            "--depth" => {
                i += 1;
                args.depth = a[i].parse().unwrap();
            },
            "--script" => {
                i += 1;
                args.script = parse_list(&a[i]);
            },
            other => {
                eprintln!("unknown argument {other}");
                std::process::exit(2);
            },
        }
        i += 1;
    }
    if args.cap_s == 0 {
        args.cap_s = if args.tier == Tier::Quick { 600 } else { 6 * 3600 };
    }
    args
}

#[derive(Clone, Debug)]
struct Known {
    status: String,
    property: String,
    signature: String,
    what: String,
}

fn load_known(dir: &PathBuf) -> Vec<Known> {
    let p = dir.join("known_findings.json");
    let Ok(s) = std::fs::read_to_string(&p) else { return vec![] };
    let v: Value = match serde_json::from_str(&s) {
        Ok(v) => v,
        Err(e) => {
            eprintln!("machinery fault: cannot parse {}: {e}", p.display());
            std::process::exit(2);
        },
    };
    let mut out = vec![];
    if let Some(arr) = v.get("findings").and_then(|x| x.as_array()) {
        for f in arr {
            out.push(Known {
                status: f["status"].as_str().unwrap_or("").to_string(),
                property: f["property"].as_str().unwrap_or("").to_string(),
                signature: f["signature"].as_str().unwrap_or("").to_string(),
                what: f["what"].as_str().unwrap_or("").to_string(),
            });
        }
    }
    out
}

fn tier_name(t: Tier) -> &'static str {
    if t == Tier::Quick {
        "quick"
    } else {
        "thorough"
    }
}

fn seed() -> i64 {
    std::env::var("VERIF_SEED").ok().and_then(|s| s.parse().ok()).unwrap_or(0)
}

fn silent_panics() {
    std::panic::set_hook(Box::new(|_| {}));
}

fn write_replay(
    args: &Args,
    id: &str,
    t: &dyn Target,
    f: &Found,
    ex: &exec::Exec,
) -> PathBuf {
    let dir = args.verif_dir.join("replays");
    let _ = std::fs::create_dir_all(&dir);
    let mut h = std::collections::hash_map::DefaultHasher::new();
    use std::hash::{Hash, Hasher};
    (id, &t.name(), &f.script, &f.viol.sig).hash(&mut h);
    let path = dir.join(format!("{}-{:016x}.json", id, h.finish()));
    let choices: Vec<Value> = ex
        .choices
        .iter()
        .take(f.script.len())
        .map(|c| json!({"n": c.n, "pick": c.pick, "label": exec::render_choice(ex, c)}))
        .collect();
    let v = json!({
        "property": id,
        "world": t.name(),
        "tier": tier_name(args.tier),
        "clause": f.viol.clause,
        "signature": f.viol.sig,
        "detail": f.viol.detail,
        "violating_event_index": f.viol.at,
        "script": f.script,
        "script_n": f.script_n,
        "choices": choices,
        "trace": exec::render_trace(ex),
        "executions_with_this_signature": f.count,
    });
    std::fs::write(&path, serde_json::to_string_pretty(&v).unwrap()).expect("write replay");
    path
}

fn worker_args(args: &Args) -> Vec<String> {
    vec!["worker".into(), args.id.clone(), "--tier".into(), tier_name(args.tier).into()]
}

fn run_worker(args: &Args) -> i32 {
    let Some(targets) = targets_for(&args.id, args.tier) else { return 2 };
    worker_loop(&targets, 1_500_000);
    0
}

fn run_check(args: &Args) -> i32 {
    let t0 = Instant::now();
    let id = args.id.as_str();
    if id == "C06" {
        return run_c06(args);
    }
    if id == "C20" {
        return run_c20(args);
    }
    let Some(targets) = targets_for(id, args.tier) else {
        eprintln!("unknown property {id}");
        return 2;
    };
    let known = load_known(&args.verif_dir);
    let deadline = Instant::now() + Duration::from_secs(args.cap_s);
    let mut pool = Pool::new(args.threads, worker_args(args), u64::MAX);
    let mut total = Stats::default();
    let mut per_world: Vec<Value> = vec![];
    let mut new_viol: Vec<(PathBuf, String)> = vec![];
    let mut known_hits: BTreeMap<String, (String, u64)> = BTreeMap::new();
    let mut machinery: Option<String> = None;
    let mut samples: Vec<Value> = vec![];
    for (widx, target) in targets.iter().enumerate() {
        if let Some(w) = &args.only_world {
            if !target.name().contains(w.as_str()) {
                continue;
            }
        }
        let left = deadline.saturating_duration_since(Instant::now());
        if left.is_zero() {
            total.capped = true;
            machinery = Some(format!("wall-clock cap hit before world {}", target.name()));
            break;
        }
        let target: &dyn Target = &**target;
        let st = explore(target, widx, &mut pool, left, true);
        if args.verbose {
            eprintln!(
                "{:<44} execs={:>10} states={:>11} outcomes={:>7} viol_execs={:>8} sigs={} {:.1}s",
                target.name(),
                st.execs,
                st.states,
                st.outcomes.len(),
                st.violating_execs,
                st.found.len(),
                st.wall_s
            );
        }
        per_world.push(json!({
            "world": target.name(),
            "executions": st.execs,
            "states": st.states,
            "distinct_outcomes": st.outcomes.len(),
            "distinct_nontrivial": st.nontrivial.len(),
            "E": target.bounds().0, "D_or_preemptions": if target.bounds().1 == u32::MAX { json!("unbounded") } else { json!(target.bounds().1) },
            "max_choice_points": st.max_choices,
            "max_deviations_used": st.max_devs,
            "violating_executions": st.violating_execs,
            "wall_s": (st.wall_s * 100.0).round() / 100.0,
        }));
        if let Some(m) = &st.machinery_fault {
            machinery = Some(m.clone());
        }
        if st.capped {
            machinery = Some(format!("wall-clock cap hit inside world {}", target.name()));
        }
        // at most one sample per world, from three different worlds (skipping the trivial ones)
        if let Some(s) = st.samples.iter().max_by_key(|s| s.len()) {
            if samples.len() < 3 && (st.execs > 1000 || widx + 4 > targets.len()) {
                samples.push(json!({"world": target.name(), "history": s}));
            }
        }
        let mut founds: Vec<&Found> = st.found.values().collect();
        founds.sort_by(|a, b| (a.cost, &a.script).cmp(&(b.cost, &b.script)));
        for f in founds {
            let k = known.iter().find(|k| k.status == "known" && k.property == id && k.signature == f.viol.sig);
            if let Some(k) = k {
                let e = known_hits.entry(k.signature.clone()).or_insert((k.what.clone(), 0));
                e.1 += f.count;
                continue;
            }
            // validate: replay twice, identical traces, oracle fails again
            let r1 = replay(target, &f.script, &f.script_n);
            let r2 = replay(target, &f.script, &f.script_n);
            if r1.trace != r2.trace || r1.fault != r2.fault {
                machinery = Some(format!("replay of a violation in {} is not deterministic", target.name()));
                continue;
            }
            if matches!(r1.fault, Some(exec::Fault::Nondet(_)) | Some(exec::Fault::Internal(_))) {
                machinery = Some(format!("replay fault in {}: {:?}", target.name(), r1.fault));
                continue;
            }
            let again = target.check(&r1);
            if again.as_ref().map(|v| &v.sig) != Some(&f.viol.sig) {
                machinery = Some(format!(
                    "violation {} in {} did not reproduce on replay (got {:?})",
                    f.viol.sig,
                    target.name(),
                    again.map(|v| v.sig)
                ));
                continue;
            }
            let path = write_replay(args, id, target, f, &r1);
            new_viol.push((path, format!("{} [{}] {}", target.name(), f.viol.sig, f.viol.detail)));
        }
        let mut st2 = st;
        st2.found.clear();
        total.merge(st2);
    }
    pool.shutdown();
    let wall = t0.elapsed().as_secs_f64();
    // evidence
    let exhaustive = machinery.is_none() && !total.capped;
    let ev = json!({
        "property_id": id,
        "tier": tier_name(args.tier),
        "seed": seed(),
        "level": "model_checking",
        "coverage": {
            "states": total.states,
            "transitions": total.states.saturating_sub(per_world.len() as u64),
            "traces_validated_against_impl": total.execs,
            "evaluations": total.execs,
            "distinct_nontrivial": total.nontrivial.len(),
            "distinct_outcomes": total.outcomes.len(),
            "top_level_events_executed": total.events,
            "rule": "every execution is the real callbag code driven by one path of the choice tree (environment event order + deviations of puppets/probes); states = distinct history prefixes (tree nodes), transitions = tree edges, traces_validated_against_impl = complete executions of the implementation; an outcome is the sequence of messages observed at probes/puppets, non-trivial if a Data or terminal message reached a sink",
            "samples": samples,
            "exhaustive": exhaustive,
            "worlds": per_world,
            "panicking_executions": total.panics,
            "divergent_executions": total.divergences,
            "violating_executions": total.violating_execs,
            "known_finding_signatures": known_hits.keys().collect::<Vec<_>>(),
        },
        "assumptions": [
            "bounded: horizon E top-level events and at most D deviations (nested reactions / non-default peer answers) per execution, per world as listed",
            "peers are spec-conformant puppets/probes; data alphabet is small integers (operators are parametric in T)",
            "late greeting explored for merge only; at most `burst` emissions inside a greeting",
            "an execution is not examined beyond its first violation (choices after it are pruned)"
        ],
        "wall_s": (wall * 100.0).round() / 100.0,
        "violations": new_viol.len(),
    });
    let evdir = args.verif_dir.join("evidence");
    let _ = std::fs::create_dir_all(&evdir);
    std::fs::write(evdir.join(format!("{id}.json")), serde_json::to_string_pretty(&ev).unwrap())
        .expect("write evidence");
    for (sig, (what, n)) in &known_hits {
        println!("KNOWN-FINDING: property={id} {what} [signature {sig}; {n} executions]");
    }
    for (p, d) in &new_viol {
        println!("VIOLATION property={id} replay={}", p.display());
        println!("  {d}");
    }
    println!(
        "{id} {}: {} executions, {} states, {} distinct outcomes, {} new violation signature(s), {} known, {:.1}s",
        tier_name(args.tier),
        total.execs,
        total.states,
        total.outcomes.len(),
        new_viol.len(),
        known_hits.len(),
        wall
    );
    if let Some(m) = machinery {
        eprintln!("MACHINERY FAULT: {m}");
        return 2;
    }
    if !new_viol.is_empty() {
        return 1;
    }
    0
}

fn run_replay(args: &Args) -> i32 {
    let path = args.replay.clone().expect("--replay FILE");
    let s = std::fs::read_to_string(&path).expect("read replay file");
    let v: Value = serde_json::from_str(&s).expect("parse replay file");
    let id = v["property"].as_str().unwrap().to_string();
    if id == "C06" {
        return replay_c06(args, &v);
    }
    if id == "C20" {
        return replay_c20(args, &v);
    }
    let wname = v["world"].as_str().unwrap().to_string();
    let script: Vec<u16> = v["script"].as_array().unwrap().iter().map(|x| x.as_u64().unwrap() as u16).collect();
    let script_n: Vec<u16> = v["script_n"].as_array().unwrap().iter().map(|x| x.as_u64().unwrap() as u16).collect();
    let mut target: Option<Box<dyn Target>> = None;
    for tier in [Tier::Quick, Tier::Thorough] {
        if let Some(ts) = targets_for(&id, tier) {
            for t in ts {
                if t.name() == wname && target.is_none() {
                    target = Some(t);
                }
            }
        }
        if target.is_some() {
            break;
        }
    }
    let Some(target) = target else {
        eprintln!("world {wname} not found for {id}");
        return 2;
    };
    let target: &dyn Target = &*target;
    let ex = replay(target, &script, &script_n);
    for (i, c) in ex.choices.iter().enumerate().take(script.len()) {
        println!("choice {i}: [{}/{}] {}", c.pick, c.n, exec::render_choice(&ex, c));
    }
    for (i, l) in exec::render_trace(&ex).iter().enumerate() {
        println!("{i:4} {l}");
    }
    if let Some(f) = &ex.fault {
        if !matches!(f, exec::Fault::Divergence) {
            eprintln!("MACHINERY FAULT: {f:?}");
            return 2;
        }
    }
    match target.check(&ex) {
        Some(v) => {
            println!("VIOLATION property={id} replay={}", path.display());
            println!("  clause {} at trace index {}: {}", v.clause, v.at, v.detail);
            1
        },
        None => {
            println!("no violation on this history");
            0
        },
    }
}

/// The running image, even if the file it was started from has been replaced meanwhile (a
/// concurrent rebuild): /proc/self/exe executes the mapped image, `current_exe()` would name a
/// deleted path.
pub fn self_exe() -> PathBuf {
    let p = PathBuf::from("/proc/self/exe");
    if p.exists() {
        p
    } else {
        std::env::current_exe().expect("current_exe")
    }
}

fn main() {
    let args = parse_args();
    silent_panics();
    threaded::install_hook();
    if std::env::var("CBMC_SUBSCRIBER").map(|s| s == "1").unwrap_or(false) && !tracesub::install() {
        eprintln!("MACHINERY FAULT: CBMC_SUBSCRIBER=1 but no tracing subscriber could be installed");
        std::process::exit(2);
    }
    let code = match args.cmd.as_str() {
        "check" => {
            if args.replay.is_some() {
                run_replay(&args)
            } else {
                run_check(&args)
            }
        },
        "replay" => run_replay(&args),
        "worker" => run_worker(&args),
        "c06worker" => run_c06_worker(&args, args.from, args.to),
        "digest" => {
            let v = compute_digests(&args);
            println!("{}", v);
            0
        },
        "onedigest" => run_onedigest(&args),
        "digestdump" => run_digestdump(&args),
        "selftest" => run_selftest(&args),
        _ => {
            eprintln!("usage: cbmc check <ID> [--tier quick|thorough] [--replay FILE] [--world SUBSTR] [-v]");
            2
        },
    };
    std::process::exit(code);
}

// ------------------------------------------------------------------------------------------------
// C06: pipelines

fn stage_family(s: &pipelines::Stage) -> &'static str {
    use pipelines::{Simple, Stage};
    match s {
        Stage::S(Simple::MapAdd) | Stage::S(Simple::MapMul) => "map",
        Stage::S(Simple::FilterEven) | Stage::S(Simple::FilterOdd) | Stage::S(Simple::FilterGt1) | Stage::S(Simple::FilterNone) => "filter",
        Stage::S(Simple::Scan) => "scan",
        Stage::S(Simple::Take(_)) => "take",
        Stage::S(Simple::Skip(_)) => "skip",
        Stage::ConcatAfter(..) | Stage::ConcatBefore(..) | Stage::ConcatSelf | Stage::Concat3After(..) | Stage::Concat3Middle(..) => "concat",
        Stage::FlatMap(..) | Stage::FlatMapShared(..) => "flatten",
    }
}

fn c06_depth(tier: Tier) -> usize {
    if tier == Tier::Quick {
        3
    } else {
        4
    }
}

#[derive(Default)]
struct C06Acc {
    programs: u64,
    runs: u64,
    skipped: u64,
    outputs: std::collections::HashSet<u64>,
    nontrivial: std::collections::HashSet<u64>,
    /// sig -> (program, input index, clause, detail, count)
    found: BTreeMap<String, (Vec<usize>, usize, String, String, u64)>,
    samples: Vec<String>,
    digest_sum: u64,
    digest_xor: u64,
}

impl C06Acc {
    fn merge(&mut self, o: C06Acc) {
        self.digest_sum = self.digest_sum.wrapping_add(o.digest_sum);
        self.digest_xor ^= o.digest_xor;
        self.programs += o.programs;
        self.runs += o.runs;
        self.skipped += o.skipped;
        self.outputs.extend(o.outputs);
        self.nontrivial.extend(o.nontrivial);
        for (k, v) in o.found {
            match self.found.get_mut(&k) {
                Some(e) => {
                    e.4 += v.4;
                    if (v.0.len(), &v.0, v.1) < (e.0.len(), &e.0, e.1) {
                        let c = e.4;
                        *e = v;
                        e.4 = c;
                    }
                },
                None => {
                    self.found.insert(k, v);
                },
            }
        }
        for s in o.samples {
            if self.samples.len() < 3 {
                self.samples.push(s);
            }
        }
    }
    fn to_json(&self) -> Value {
        json!({
            "programs": self.programs, "runs": self.runs, "skipped": self.skipped,
            "outputs": self.outputs.iter().collect::<Vec<_>>(),
            "nontrivial": self.nontrivial.iter().collect::<Vec<_>>(),
            "found": self.found.iter().map(|(k, v)| json!({"sig": k, "prog": v.0, "input": v.1, "clause": v.2, "detail": v.3, "count": v.4})).collect::<Vec<_>>(),
            "samples": self.samples,
            "digest_sum": self.digest_sum, "digest_xor": self.digest_xor,
        })
    }
    fn from_json(v: &Value) -> C06Acc {
        let mut a = C06Acc {
            programs: v["programs"].as_u64().unwrap_or(0),
            runs: v["runs"].as_u64().unwrap_or(0),
            skipped: v["skipped"].as_u64().unwrap_or(0),
            digest_sum: v["digest_sum"].as_u64().unwrap_or(0),
            digest_xor: v["digest_xor"].as_u64().unwrap_or(0),
            ..Default::default()
        };
        a.outputs = v["outputs"].as_array().map(|x| x.iter().filter_map(|y| y.as_u64()).collect()).unwrap_or_default();
        a.nontrivial = v["nontrivial"].as_array().map(|x| x.iter().filter_map(|y| y.as_u64()).collect()).unwrap_or_default();
        if let Some(f) = v["found"].as_array() {
            for e in f {
                a.found.insert(
                    e["sig"].as_str().unwrap_or("").to_string(),
                    (
                        e["prog"].as_array().map(|p| p.iter().map(|x| x.as_u64().unwrap_or(0) as usize).collect()).unwrap_or_default(),
                        e["input"].as_u64().unwrap_or(0) as usize,
                        e["clause"].as_str().unwrap_or("").to_string(),
                        e["detail"].as_str().unwrap_or("").to_string(),
                        e["count"].as_u64().unwrap_or(0),
                    ),
                );
            }
        }
        a.samples = v["samples"].as_array().map(|x| x.iter().map(|y| y.as_str().unwrap_or("").to_string()).collect()).unwrap_or_default();
        a
    }
}

fn c06_eval(alpha: &[pipelines::Stage], inputs: &[pipelines::Input], prog: &Vec<usize>, acc: &mut C06Acc) {
    use std::hash::{Hash, Hasher};
    let stages: Vec<pipelines::Stage> = prog.iter().map(|i| alpha[*i].clone()).collect();
    acc.programs += 1;
    for (ii, input) in inputs.iter().enumerate() {
        match pipelines::run_ref(&stages, input) {
            None => {
                acc.skipped += 1;
                continue;
            },
            Some((want, _)) => {
                let mut h2 = std::collections::hash_map::DefaultHasher::new();
                want.hash(&mut h2);
                stages.iter().map(stage_family).collect::<Vec<_>>().hash(&mut h2);
                let oh = h2.finish();
                acc.outputs.insert(oh);
                if !want.is_empty() {
                    acc.nontrivial.insert(oh);
                }
            },
        }
        acc.runs += 1;
        {
            let o = pipelines::last_outcome_hash(&stages, input, prog, ii);
            acc.digest_sum = acc.digest_sum.wrapping_add(o);
            acc.digest_xor ^= o.rotate_left(13);
        }
        if let Some((clause, detail)) = pipelines::check_one(&stages, input) {
            let mut fams: Vec<&str> = stages.iter().map(stage_family).collect();
            fams.sort();
            fams.dedup();
            let sig = format!("pipeline/{}/{}", clause, fams.join("+"));
            let e = acc.found.entry(sig).or_insert((prog.clone(), ii, clause.clone(), detail.clone(), 0));
            e.4 += 1;
            if (prog.len(), &*prog, ii) < (e.0.len(), &e.0, e.1) {
                e.0 = prog.clone();
                e.1 = ii;
                e.3 = detail;
            }
        } else if acc.samples.len() < 3 && prog.len() == 3 && ii == 20 && prog[0] != prog[1] {
            acc.samples.push(format!("from_iter({:?}) | {:?} | for_each(f)", input, stages));
        }
    }
}

/// the work items of C06: programs of length < 2 individually, then one item per 2-stage prefix
/// (standing for every program that extends it up to the depth bound)
fn c06_items(na: usize, depth: usize) -> Vec<Vec<usize>> {
    let mut items: Vec<Vec<usize>> = vec![vec![]];
    if depth >= 1 {
        for a in 0..na {
            items.push(vec![a]);
        }
    }
    if depth >= 2 {
        for a in 0..na {
            for b in 0..na {
                items.push(vec![a, b]);
            }
        }
    }
    items
}

fn run_c06_worker(args: &Args, from: usize, to: usize) -> i32 {
    let thorough = args.tier == Tier::Thorough;
    let alpha = pipelines::alphabet(thorough);
    let inputs = pipelines::inputs();
    let depth = if args.depth > 0 { args.depth } else { c06_depth(args.tier) };
    let na = alpha.len();
    let items = c06_items(na, depth);
    let mut acc = C06Acc::default();
    fn rec(prog: &mut Vec<usize>, depth: usize, na: usize, f: &mut dyn FnMut(&Vec<usize>)) {
        f(prog);
        if prog.len() < depth {
            for a in 0..na {
                prog.push(a);
                rec(prog, depth, na, f);
                prog.pop();
            }
        }
    }
    for k in from..to.min(items.len()) {
        let mut p = items[k].clone();
        if p.len() < 2 {
            c06_eval(&alpha, &inputs, &p, &mut acc);
        } else {
            rec(&mut p, depth, na, &mut |q| c06_eval(&alpha, &inputs, q, &mut acc));
        }
    }
    println!("{}", acc.to_json());
    0
}

fn c06_explore(args: &Args, depth: usize) -> (C06Acc, bool, Option<String>) {
    use std::sync::atomic::{AtomicUsize, Ordering};
    use std::sync::Mutex;
    let t0 = Instant::now();
    let thorough = args.tier == Tier::Thorough;
    let alpha = pipelines::alphabet(thorough);
    let inputs = pipelines::inputs();
    let na = alpha.len();
    let items = c06_items(na, depth);
    // chunking: keep each worker process below ~250k runs (the crate's own Arc cycles leak every
    // subscription graph, a few kB per run)
    let mut per_item: u64 = 1;
    for _ in 2..depth {
        per_item = per_item * na as u64 + 1;
    }
    let runs_per_item = per_item * inputs.len() as u64;
    let chunk = ((250_000 / runs_per_item.max(1)) as usize).clamp(1, 200);
    let nchunks = (items.len() + chunk - 1) / chunk;
    let next = AtomicUsize::new(0);
    let total = Mutex::new(C06Acc::default());
    let fault: Mutex<Option<String>> = Mutex::new(None);
    let deadline = t0 + Duration::from_secs(args.cap_s);
    let capped = std::sync::atomic::AtomicBool::new(false);
    std::thread::scope(|sc| {
        for _ in 0..args.threads {
            sc.spawn(|| loop {
                let c = next.fetch_add(1, Ordering::Relaxed);
                if c >= nchunks {
                    break;
                }
                if Instant::now() > deadline {
                    capped.store(true, Ordering::Relaxed);
                    break;
                }
                let exe = crate::self_exe();
                let out = std::process::Command::new(exe)
                    .args(["c06worker", "C06", "--tier", tier_name(args.tier), "--depth", &depth.to_string(), "--from", &(c * chunk).to_string(), "--to", &((c + 1) * chunk).to_string()])
                    .output();
                match out {
                    Ok(o) if o.status.success() => match serde_json::from_slice::<Value>(&o.stdout) {
                        Ok(v) => total.lock().unwrap().merge(C06Acc::from_json(&v)),
                        Err(e) => *fault.lock().unwrap() = Some(format!("bad C06 worker output: {e}")),
                    },
                    Ok(o) => *fault.lock().unwrap() = Some(format!("C06 worker failed: {:?}", o.status)),
                    Err(e) => *fault.lock().unwrap() = Some(format!("cannot spawn C06 worker: {e}")),
                }
            });
        }
    });
    (total.into_inner().unwrap(), capped.load(Ordering::Relaxed), fault.into_inner().unwrap())
}

fn run_c06(args: &Args) -> i32 {
    use std::sync::atomic::Ordering;
    let t0 = Instant::now();
    let id = "C06";
    let known = load_known(&args.verif_dir);
    let thorough = args.tier == Tier::Thorough;
    let alpha = pipelines::alphabet(thorough);
    let inputs = pipelines::inputs();
    let depth = c06_depth(args.tier);
    let na = alpha.len();
    let (mut acc, capped, fault) = c06_explore(args, depth);
    let _ = Ordering::Relaxed;
    let mut new_viol = vec![];
    let mut known_hits: BTreeMap<String, (String, u64)> = BTreeMap::new();
    if let Some((clause, detail)) = pipelines::check_pipe_macro() {
        acc.found.insert(format!("pipeline/{clause}"), (vec![], 0, clause, detail, 1));
    }
    let dir = args.verif_dir.join("replays");
    let _ = std::fs::create_dir_all(&dir);
    for (sig, (prog, ii, clause, detail, count)) in &acc.found {
        if let Some(k) = known.iter().find(|k| k.status == "known" && k.property == id && &k.signature == sig) {
            known_hits.insert(sig.clone(), (k.what.clone(), *count));
            continue;
        }
        let stages: Vec<pipelines::Stage> = prog.iter().map(|i| alpha[*i].clone()).collect();
        // replay twice
        if clause != "pipe-macro" {
            let a = pipelines::check_one(&stages, &inputs[*ii]);
            let b = pipelines::check_one(&stages, &inputs[*ii]);
            if a != b || a.is_none() {
                eprintln!("MACHINERY FAULT: C06 violation did not reproduce deterministically");
                return 2;
            }
        }
        use std::hash::{Hash, Hasher};
        let mut h = std::collections::hash_map::DefaultHasher::new();
        (sig, prog, ii).hash(&mut h);
        let path = dir.join(format!("C06-{:016x}.json", h.finish()));
        let v = json!({
            "property": id, "tier": tier_name(args.tier), "clause": clause, "signature": sig, "detail": detail,
            "program": prog, "program_text": format!("from_iter({:?}) | {:?} | for_each(f)", inputs[*ii], stages),
            "input": ii, "executions_with_this_signature": count,
        });
        std::fs::write(&path, serde_json::to_string_pretty(&v).unwrap()).expect("write replay");
        new_viol.push((path, format!("from_iter({:?}) | {:?} | for_each(f): [{}] {}", inputs[*ii], stages, sig, detail)));
    }
    let wall = t0.elapsed().as_secs_f64();
    if acc.samples.is_empty() {
        acc.samples.push(format!("from_iter({:?}) | {:?} | for_each(f)", inputs[20], &alpha[..depth.min(alpha.len())]));
    }
    let ev = json!({
        "property_id": id, "tier": tier_name(args.tier), "seed": seed(), "level": "model_checking",
        "coverage": {
            "states": acc.runs, "transitions": acc.runs,
            "traces_validated_against_impl": acc.runs,
            "evaluations": acc.runs,
            "programs": acc.programs,
            "inputs_per_program": inputs.len(),
            "skipped_infinite_demand": acc.skipped,
            "distinct_nontrivial": acc.nontrivial.len(),
            "distinct_outcomes": acc.outputs.len(),
            "rule": format!("all pipelines from_iter(xs) | s1..sd | for_each(f), d <= {depth}, stages from an alphabet of {na} (map x2, filter x4, scan, take 1-3, skip 1-3, concat!(.,P)/concat!(P,.) with sub-pipelines P, map-then-flatten x3 with optional inner stage), xs = all lists over {{1,2,3}} of length 0..3 and the unbounded counter (where the reference demand is finite); each run is the real crate code compared with a demand-driven reference interpreter (values seen by f, exactly one completion inside the subscribing call, next() calls per iterator); an outcome = (stage families, expected output list); plus pipe! for arities 2..6 against manual application"),
            "samples": acc.samples,
            "exhaustive": !capped && fault.is_none(),
        },
        "assumptions": ["stage alphabet and parameters as listed; closures are harness-chosen; depth bound d", "states/transitions count (program,input) runs: the space is a set of deterministic runs, not a branching tree"],
        "wall_s": (wall * 100.0).round() / 100.0,
        "violations": new_viol.len(),
    });
    let evdir = args.verif_dir.join("evidence");
    let _ = std::fs::create_dir_all(&evdir);
    std::fs::write(evdir.join("C06.json"), serde_json::to_string_pretty(&ev).unwrap()).expect("write evidence");
    for (sig, (what, n)) in &known_hits {
        println!("KNOWN-FINDING: property={id} {what} [signature {sig}; {n} runs]");
    }
    for (p, d) in &new_viol {
        println!("VIOLATION property={id} replay={}", p.display());
        println!("  {d}");
    }
    println!("C06 {}: {} programs, {} runs ({} skipped: infinite demand), {} distinct outcomes, {} new violation signature(s), {:.1}s", tier_name(args.tier), acc.programs, acc.runs, acc.skipped, acc.outputs.len(), new_viol.len(), wall);
    if let Some(f) = fault {
        eprintln!("MACHINERY FAULT: {f}");
        return 2;
    }
    if capped {
        eprintln!("MACHINERY FAULT: wall-clock cap hit");
        return 2;
    }
    if !new_viol.is_empty() {
        return 1;
    }
    0
}

fn replay_c06(args: &Args, v: &Value) -> i32 {
    let tier = if v["tier"].as_str() == Some("thorough") { Tier::Thorough } else { Tier::Quick };
    let alpha = pipelines::alphabet(tier == Tier::Thorough);
    let inputs = pipelines::inputs();
    let prog: Vec<usize> = v["program"].as_array().unwrap().iter().map(|x| x.as_u64().unwrap() as usize).collect();
    let ii = v["input"].as_u64().unwrap() as usize;
    let stages: Vec<pipelines::Stage> = prog.iter().map(|i| alpha[*i].clone()).collect();
    println!("from_iter({:?}) | {:?} | for_each(f)", inputs[ii], stages);
    println!("reference: {:?}", pipelines::run_ref(&stages, &inputs[ii]));
    println!("real:      {:?}", pipelines::run_real(&stages, &inputs[ii]));
    let r = if v["clause"].as_str() == Some("pipe-macro") { pipelines::check_pipe_macro() } else { pipelines::check_one(&stages, &inputs[ii]) };
    match r {
        Some((c, d)) => {
            println!("VIOLATION property=C06 replay={}", args.replay.as_ref().unwrap().display());
            println!("  clause {c}: {d}");
            1
        },
        None => {
            println!("no violation on this program/input");
            0
        },
    }
}

// ------------------------------------------------------------------------------------------------
// C20: the tracing feature is observationally inert (three builds, same exploration, same digests)

fn c20_c06_depth(tier: Tier) -> usize {
    if tier == Tier::Quick {
        2
    } else {
        3
    }
}

/// Explore every C20 world in this build and return per-world counts and digests.
fn compute_digests(args: &Args) -> Value {
    let sub = std::env::var("CBMC_SUBSCRIBER").map(|s| s == "1").unwrap_or(false);
    let targets = targets_for("C20", args.tier).unwrap();
    let mut a2 = Args { id: "C20".into(), ..clone_args(args) };
    a2.cap_s = args.cap_s;
    let mut pool = Pool::new(args.threads, worker_args(&a2), u64::MAX);
    let deadline = Instant::now() + Duration::from_secs(args.cap_s);
    let mut worlds = vec![];
    let mut fault: Option<String> = None;
    let mut samples: Vec<Value> = vec![];
    for (widx, t) in targets.iter().enumerate() {
        let left = deadline.saturating_duration_since(Instant::now());
        let st = explore(&**t, widx, &mut pool, left.max(Duration::from_secs(1)), samples.len() < 2);
        if let Some(m) = &st.machinery_fault {
            fault = Some(m.clone());
        }
        if st.capped {
            fault = Some(format!("wall-clock cap hit inside world {}", t.name()));
        }
        for s in st.samples.iter() {
            if samples.len() < 2 {
                samples.push(json!({"world": t.name(), "history": s}));
            }
        }
        worlds.push(json!({
            "world": t.name(), "idx": widx, "executions": st.execs, "states": st.states,
            "digest_sum": st.digest_sum, "digest_xor": st.digest_xor,
            "distinct_outcomes": st.outcomes.len(), "distinct_nontrivial": st.nontrivial.len(), "panics": st.panics,
        }));
    }
    pool.shutdown();
    let (acc, capped, f2) = c06_explore(&a2, c20_c06_depth(args.tier));
    if capped {
        fault = Some("wall-clock cap hit in the pipeline digest".into());
    }
    if let Some(f) = f2 {
        fault = Some(f);
    }
    json!({
        "tracing_compiled_in": tracesub::tracing_compiled_in(),
        "subscriber_installed": sub,
        "subscriber_events_seen_by_parent": tracesub::events(),
        "worlds": worlds,
        "pipelines": {"programs": acc.programs, "runs": acc.runs, "digest_sum": acc.digest_sum, "digest_xor": acc.digest_xor, "violations": acc.found.len()},
        "fault": fault,
        "samples": samples,
    })
}

fn clone_args(a: &Args) -> Args {
    Args {
        cmd: a.cmd.clone(),
        id: a.id.clone(),
        tier: a.tier,
        threads: a.threads,
        verif_dir: a.verif_dir.clone(),
        replay: a.replay.clone(),
        cap_s: a.cap_s,
        only_world: a.only_world.clone(),
        verbose: a.verbose,
        from: a.from,
        to: a.to,
        depth: a.depth,
        script: a.script.clone(),
    }
}

fn other_build_digests(args: &Args, bin: &str, subscriber: bool) -> Result<Value, String> {
    let out = std::process::Command::new(bin)
        .args(["digest", "C20", "--tier", tier_name(args.tier), "--threads", &args.threads.to_string(), "--cap", &args.cap_s.to_string()])
        .env("CBMC_SUBSCRIBER", if subscriber { "1" } else { "0" })
        .output()
        .map_err(|e| format!("cannot run {bin}: {e}"))?;
    if !out.status.success() {
        return Err(format!("{bin} digest failed: {:?} {}", out.status, String::from_utf8_lossy(&out.stderr)));
    }
    serde_json::from_slice::<Value>(&out.stdout).map_err(|e| format!("bad digest output of {bin}: {e}"))
}

/// per-execution digests of one world in DFS order: lines "picks digest"
fn run_digestdump(args: &Args) -> i32 {
    let targets = targets_for("C20", args.tier).unwrap();
    let t = &targets[args.from];
    let mut stack: Vec<(Vec<u16>, Vec<u16>)> = vec![(vec![], vec![])];
    let out = std::io::stdout();
    let mut out = out.lock();
    use std::io::Write;
    while let Some((s, n)) = stack.pop() {
        let ex = t.run(&s, &n, false);
        let picks: Vec<String> = ex.choices.iter().map(|c| c.pick.to_string()).collect();
        let _ = writeln!(out, "{} {}", if picks.is_empty() { "-".to_string() } else { picks.join(",") }, t.digest(&ex));
        let plen = s.len();
        let dbound = t.dev_bound();
        let mut devs = 0;
        let mut kids = vec![];
        for i in 0..ex.choices.len() {
            let c = &ex.choices[i];
            if i >= plen {
                for alt in 1..c.n {
                    let dc = if c.kind == exec::Kind::Dev { 1 } else { 0 };
                    if devs + dc > dbound {
                        continue;
                    }
                    let mut cs: Vec<u16> = ex.choices[..i].iter().map(|c| c.pick).collect();
                    cs.push(alt);
                    kids.push((cs, vec![]));
                }
            }
            if c.pick != 0 && c.kind == exec::Kind::Dev {
                devs += 1;
            }
        }
        while let Some(k) = kids.pop() {
            stack.push(k);
        }
    }
    0
}

/// one execution of one C20 world in this build: prints the digest and the trace
fn run_onedigest(args: &Args) -> i32 {
    let targets = targets_for("C20", args.tier).unwrap();
    let t = &targets[args.from];
    let ex = t.run(&args.script, &[], false);
    println!("DIGEST {}", t.digest(&ex));
    for l in exec::render_trace(&ex) {
        println!("{l}");
    }
    println!("calls {:?} panicked {}", ex.calls, ex.panicked);
    0
}

fn first_difference(args: &Args, bins: &[(String, bool)], widx: usize) -> Option<(Vec<u16>, String)> {
    // own dump vs each other build's dump; returns the first differing script
    let dump = |bin: &str, sub: bool| -> Vec<String> {
        let out = std::process::Command::new(bin)
            .args(["digestdump", "C20", "--tier", tier_name(args.tier), "--from", &widx.to_string()])
            .env("CBMC_SUBSCRIBER", if sub { "1" } else { "0" })
            .output();
        match out {
            Ok(o) => String::from_utf8_lossy(&o.stdout).lines().map(|l| l.to_string()).collect(),
            Err(_) => vec![],
        }
    };
    let me = crate::self_exe().to_string_lossy().to_string();
    let a = dump(&me, false);
    for (bin, sub) in bins {
        let b = dump(bin, *sub);
        for (k, la) in a.iter().enumerate() {
            let lb = b.get(k).cloned().unwrap_or_default();
            if *la != lb {
                let picks = la.split_whitespace().next().unwrap_or("-");
                let picks_b = lb.split_whitespace().next().unwrap_or("-");
                return Some((parse_list(picks), format!("execution #{k}: plain build `{la}` vs {} `{lb}` (choices {picks} vs {picks_b})", if *sub { "tracing+subscriber" } else { "tracing" })));
            }
        }
        if b.len() != a.len() {
            return Some((vec![], format!("plain build explored {} executions, the other build {}", a.len(), b.len())));
        }
    }
    None
}

fn run_c20(args: &Args) -> i32 {
    let t0 = Instant::now();
    let id = "C20";
    let Ok(tbin) = std::env::var("CBMC_TRACING_BIN") else {
        eprintln!("MACHINERY FAULT: CBMC_TRACING_BIN not set (use ./check C20)");
        return 2;
    };
    if tracesub::tracing_compiled_in() {
        eprintln!("MACHINERY FAULT: C20 must be driven by the plain build");
        return 2;
    }
    let known = load_known(&args.verif_dir);
    let a = compute_digests(args);
    let b = other_build_digests(args, &tbin, false);
    let c = other_build_digests(args, &tbin, true);
    let (b, c) = match (b, c) {
        (Ok(b), Ok(c)) => (b, c),
        (Err(e), _) | (_, Err(e)) => {
            eprintln!("MACHINERY FAULT: {e}");
            return 2;
        },
    };
    let mut machinery: Option<String> = None;
    for (v, name) in [(&a, "plain"), (&b, "tracing"), (&c, "tracing+subscriber")] {
        if let Some(f) = v["fault"].as_str() {
            machinery = Some(format!("{name} build: {f}"));
        }
    }
    if b["tracing_compiled_in"] != json!(true) || c["subscriber_installed"] != json!(true) || c["subscriber_events_seen_by_parent"].as_u64().unwrap_or(0) == 0 {
        machinery = Some("the tracing builds did not run in the expected configuration (feature on / subscriber recording events)".into());
    }
    let wa = a["worlds"].as_array().unwrap();
    let mut new_viol = vec![];
    let mut known_hits: BTreeMap<String, (String, u64)> = BTreeMap::new();
    let mut total_states = 0u64;
    let mut total_execs = 0u64;
    let mut outcomes = 0u64;
    let mut nontrivial = 0u64;
    let mut per_world = vec![];
    let dir = args.verif_dir.join("replays");
    let _ = std::fs::create_dir_all(&dir);
    for (k, w) in wa.iter().enumerate() {
        let wb = &b["worlds"][k];
        let wc = &c["worlds"][k];
        total_states += w["states"].as_u64().unwrap_or(0);
        total_execs += w["executions"].as_u64().unwrap_or(0);
        outcomes += w["distinct_outcomes"].as_u64().unwrap_or(0);
        nontrivial += w["distinct_nontrivial"].as_u64().unwrap_or(0);
        let same = |x: &Value| ["world", "executions", "states", "digest_sum", "digest_xor"].iter().all(|f| x[*f] == w[*f]);
        let ok = same(wb) && same(wc);
        per_world.push(json!({"world": w["world"], "executions": w["executions"], "states": w["states"], "equal_in_all_three_builds": ok}));
        if !ok && machinery.is_none() {
            let family: String = w["world"].as_str().unwrap_or("").split(|c: char| c == '(' || c == ' ').next().unwrap_or("").to_lowercase();
            let sig = format!("{family}/builds-differ");
            if let Some(kf) = known.iter().find(|kf| kf.status == "known" && kf.property == id && kf.signature == sig) {
                known_hits.insert(sig.clone(), (kf.what.clone(), 1));
                continue;
            }
            let diff = first_difference(args, &[(tbin.clone(), false), (tbin.clone(), true)], k);
            let (script, detail) = diff.unwrap_or((vec![], "digests differ but no single execution could be isolated".into()));
            use std::hash::{Hash, Hasher};
            let mut h = std::collections::hash_map::DefaultHasher::new();
            (&sig, &script, k).hash(&mut h);
            let path = dir.join(format!("C20-{:016x}.json", h.finish()));
            let v = json!({"property": id, "tier": tier_name(args.tier), "world": w["world"], "world_idx": k, "signature": sig, "script": script, "detail": detail,
                "plain": w, "tracing": wb, "tracing_subscriber": wc});
            std::fs::write(&path, serde_json::to_string_pretty(&v).unwrap()).expect("write replay");
            new_viol.push((path, format!("{} [{}] {}", w["world"], sig, detail)));
        }
    }
    // pipelines
    let pa = &a["pipelines"];
    let pipes_ok = ["programs", "runs", "digest_sum", "digest_xor"].iter().all(|f| pa[*f] == b["pipelines"][*f] && pa[*f] == c["pipelines"][*f]);
    if !pipes_ok && machinery.is_none() {
        let sig = "pipeline/builds-differ".to_string();
        if let Some(kf) = known.iter().find(|kf| kf.status == "known" && kf.property == id && kf.signature == sig) {
            known_hits.insert(sig.clone(), (kf.what.clone(), 1));
        } else {
            let path = dir.join("C20-pipelines.json");
            let v = json!({"property": id, "tier": tier_name(args.tier), "world": "pipelines", "signature": sig, "plain": pa, "tracing": b["pipelines"], "tracing_subscriber": c["pipelines"]});
            std::fs::write(&path, serde_json::to_string_pretty(&v).unwrap()).expect("write replay");
            new_viol.push((path, format!("pipelines [{sig}] {} vs {} vs {}", pa, b["pipelines"], c["pipelines"])));
        }
    }
    let wall = t0.elapsed().as_secs_f64();
    let ev = json!({
        "property_id": id, "tier": tier_name(args.tier), "seed": seed(), "level": "model_checking",
        "coverage": {
            "states": total_states + pa["runs"].as_u64().unwrap_or(0),
            "transitions": (total_states + pa["runs"].as_u64().unwrap_or(0)).saturating_sub(wa.len() as u64),
            "traces_validated_against_impl": 3 * (total_execs + pa["runs"].as_u64().unwrap_or(0)),
            "evaluations": 3 * (total_execs + pa["runs"].as_u64().unwrap_or(0)),
            "executions_per_build": total_execs,
            "pipeline_runs_per_build": pa["runs"],
            "builds_compared": ["no tracing feature", "tracing feature, no subscriber", "tracing feature, TRACE-level recording subscriber"],
            "subscriber_events_recorded_by_parent_process": c["subscriber_events_seen_by_parent"],
            "distinct_nontrivial": nontrivial,
            "distinct_outcomes": outcomes,
            "rule": "the same exhaustive exploration (C17 worlds + unary/interval/pullable worlds + all pipelines up to the C20 depth) is executed by three builds of the harness; per world an order-independent digest over every execution's choice sequence, full message trace at every probe/puppet/tap, closure-invocation counters and panic flag must be equal, as must the execution and state counts; distinct_* are summed per world",
            "samples": a["samples"],
            "worlds": per_world,
            "exhaustive": machinery.is_none(),
        },
        "assumptions": ["same bounds as C17 quick/thorough; value types implement Debug; the subscriber formats every field of every event and span"],
        "wall_s": (wall * 100.0).round() / 100.0,
        "violations": new_viol.len(),
    });
    let evdir = args.verif_dir.join("evidence");
    let _ = std::fs::create_dir_all(&evdir);
    std::fs::write(evdir.join("C20.json"), serde_json::to_string_pretty(&ev).unwrap()).expect("write evidence");
    for (sig, (what, n)) in &known_hits {
        println!("KNOWN-FINDING: property={id} {what} [signature {sig}; {n} worlds]");
    }
    for (p, d) in &new_viol {
        println!("VIOLATION property={id} replay={}", p.display());
        println!("  {d}");
    }
    println!("C20 {}: {} executions and {} pipeline runs per build x 3 builds, {} worlds, {} new violation signature(s), {:.1}s", tier_name(args.tier), total_execs, pa["runs"], wa.len(), new_viol.len(), wall);
    if let Some(m) = machinery {
        eprintln!("MACHINERY FAULT: {m}");
        return 2;
    }
    if !new_viol.is_empty() {
        return 1;
    }
    0
}

fn replay_c20(args: &Args, v: &Value) -> i32 {
    let Ok(tbin) = std::env::var("CBMC_TRACING_BIN") else {
        eprintln!("MACHINERY FAULT: CBMC_TRACING_BIN not set (use ./check C20 --replay FILE)");
        return 2;
    };
    let Some(widx) = v["world_idx"].as_u64() else {
        println!("pipelines digest mismatch: re-run ./check C20");
        return 1;
    };
    let script: Vec<u16> = v["script"].as_array().map(|a| a.iter().map(|x| x.as_u64().unwrap_or(0) as u16).collect()).unwrap_or_default();
    let tier = v["tier"].as_str().unwrap_or("quick");
    let sc = if script.is_empty() { "-".to_string() } else { script.iter().map(|x| x.to_string()).collect::<Vec<_>>().join(",") };
    let me = crate::self_exe().to_string_lossy().to_string();
    let run = |bin: &str, sub: bool| -> String {
        let o = std::process::Command::new(bin)
            .args(["onedigest", "C20", "--tier", tier, "--from", &widx.to_string(), "--script", &sc])
            .env("CBMC_SUBSCRIBER", if sub { "1" } else { "0" })
            .output()
            .expect("run build");
        String::from_utf8_lossy(&o.stdout).to_string()
    };
    let a = run(&me, false);
    let b = run(&tbin, false);
    let c = run(&tbin, true);
    println!("--- plain build\n{a}--- tracing build\n{b}--- tracing build with subscriber\n{c}");
    if a != b || a != c {
        println!("VIOLATION property=C20 replay={}", args.replay.as_ref().unwrap().display());
        1
    } else {
        println!("no difference on this history");
        0
    }
}

// ------------------------------------------------------------------------------------------------
// engine self-validation (part of setup and of both tiers of C18)

fn run_selftest(args: &Args) -> i32 {
    if !threaded::hooks_compiled_in() {
        eprintln!("selftest: this build has no scheduler hooks (use the verif variant)");
    }
    let targets = targets_for("SELFTEST", args.tier).unwrap();
    let mut pool = Pool::new(1, vec![], u64::MAX);
    let mut res = vec![];
    for (i, t) in targets.iter().enumerate() {
        let st = explore(&**t, i, &mut pool, Duration::from_secs(60), false);
        res.push(st);
    }
    let mut ok = true;
    let mut say = |c: bool, m: &str| {
        println!("selftest: {} {}", if c { "ok  " } else { "FAIL" }, m);
        if !c {
            ok = false;
        }
    };
    say(res[0].violating_execs == 0, "load/store counter: no lost update at preemption bound 0");
    say(res[1].violating_execs > 0, "load/store counter: lost update found at preemption bound 1");
    say(res[2].execs == 252, &format!("load/store counter unbounded: C(10,5)=252 schedules enumerated (got {})", res[2].execs));
    say(res[3].execs == 20 && res[3].violating_execs == 0, &format!("fetch_add counter unbounded: C(6,3)=20 schedules, none violating (got {}, {})", res[3].execs, res[3].violating_execs));
    if let Some(f) = res[1].found.values().next() {
        let a = replay(&*targets[1], &f.script, &f.script_n);
        let b = replay(&*targets[1], &f.script, &f.script_n);
        say(a.trace == b.trace && targets[1].check(&a).is_some(), "the failing schedule replays twice with identical traces and fails again");
    }
    if ok {
        0
    } else {
        2
    }
}
