mod actors;
mod catalog;
mod exec;
mod explore;
mod nursery;
mod oracles;
mod world;
mod worlds;

use catalog::*;
use explore::*;
use serde_json::{json, Value};
use std::collections::BTreeMap;
use std::path::PathBuf;
use std::time::{Duration, Instant};

struct Args {
    cmd: String,
    id: String,
    tier: Tier,
    threads: usize,
    verif_dir: PathBuf,
    replay: Option<PathBuf>,
    cap_s: u64,
    only_world: Option<String>,
    verbose: bool,
}

fn parse_args() -> Args {
    let a: Vec<String> = std::env::args().collect();
    let mut args = Args {
        cmd: a.get(1).cloned().unwrap_or_default(),
        id: a.get(2).cloned().unwrap_or_default(),
        tier: Tier::Quick,
        threads: std::thread::available_parallelism().map(|n| n.get()).unwrap_or(8),
        verif_dir: std::env::var("VERIF_DIR").map(PathBuf::from).unwrap_or_else(|_| PathBuf::from("/verif")),
        replay: None,
        cap_s: 0,
        only_world: None,
        verbose: false,
    };
    if let Ok(t) = std::env::var("VERIF_TIER") {
        if t == "thorough" {
            args.tier = Tier::Thorough;
        }
    }
    let mut i = 3;
    while i < a.len() {
        match a[i].as_str() {
            "--tier" => {
                i += 1;
                args.tier = if a[i] == "thorough" { Tier::Thorough } else { Tier::Quick };
            },
            "--threads" => {
                i += 1;
                args.threads = a[i].parse().unwrap();
            },
            "--replay" => {
                i += 1;
                args.replay = Some(PathBuf::from(&a[i]));
            },
            "--cap" => {
                i += 1;
                args.cap_s = a[i].parse().unwrap();
            },
            "--world" => {
                i += 1;
                args.only_world = Some(a[i].clone());
            },
            "-v" => args.verbose = true,
            other => {
                eprintln!("unknown argument {other}");
                std::process::exit(2);
            },
        }
        i += 1;
    }
    if args.cap_s == 0 {
        args.cap_s = if args.tier == Tier::Quick { 600 } else { 6 * 3600 };
    }
    args
}

#[derive(Clone, Debug)]
struct Known {
    status: String,
    property: String,
    signature: String,
    what: String,
}

fn load_known(dir: &PathBuf) -> Vec<Known> {
    let p = dir.join("known_findings.json");
    let Ok(s) = std::fs::read_to_string(&p) else { return vec![] };
    let v: Value = match serde_json::from_str(&s) {
        Ok(v) => v,
        Err(e) => {
            eprintln!("machinery fault: cannot parse {}: {e}", p.display());
            std::process::exit(2);
        },
    };
    let mut out = vec![];
    if let Some(arr) = v.get("findings").and_then(|x| x.as_array()) {
        for f in arr {
            out.push(Known {
                status: f["status"].as_str().unwrap_or("").to_string(),
                property: f["property"].as_str().unwrap_or("").to_string(),
                signature: f["signature"].as_str().unwrap_or("").to_string(),
                what: f["what"].as_str().unwrap_or("").to_string(),
            });
        }
    }
    out
}

fn tier_name(t: Tier) -> &'static str {
    if t == Tier::Quick {
        "quick"
    } else {
        "thorough"
    }
}

fn seed() -> i64 {
    std::env::var("VERIF_SEED").ok().and_then(|s| s.parse().ok()).unwrap_or(0)
}

fn silent_panics() {
    std::panic::set_hook(Box::new(|_| {}));
}

fn write_replay(
    args: &Args,
    id: &str,
    t: &WorldTarget,
    f: &Found,
    ex: &exec::Exec,
) -> PathBuf {
    let dir = args.verif_dir.join("replays");
    let _ = std::fs::create_dir_all(&dir);
    let mut h = std::collections::hash_map::DefaultHasher::new();
    use std::hash::{Hash, Hasher};
    (id, &t.spec.name, &f.script, &f.viol.sig).hash(&mut h);
    let path = dir.join(format!("{}-{:016x}.json", id, h.finish()));
    let choices: Vec<Value> = ex
        .choices
        .iter()
        .take(f.script.len())
        .map(|c| json!({"n": c.n, "pick": c.pick, "label": exec::render_choice(ex, c)}))
        .collect();
    let v = json!({
        "property": id,
        "world": t.spec.name,
        "tier": tier_name(args.tier),
        "clause": f.viol.clause,
        "signature": f.viol.sig,
        "detail": f.viol.detail,
        "violating_event_index": f.viol.at,
        "script": f.script,
        "script_n": f.script_n,
        "choices": choices,
        "trace": exec::render_trace(ex),
        "executions_with_this_signature": f.count,
    });
    std::fs::write(&path, serde_json::to_string_pretty(&v).unwrap()).expect("write replay");
    path
}

fn run_check(args: &Args) -> i32 {
    let t0 = Instant::now();
    let id = args.id.as_str();
    let Some(def) = check_def(id, args.tier) else {
        eprintln!("unknown property {id}");
        return 2;
    };
    let known = load_known(&args.verif_dir);
    let deadline = Instant::now() + Duration::from_secs(args.cap_s);
    let mut total = Stats::default();
    let mut per_world: Vec<Value> = vec![];
    let mut new_viol: Vec<(PathBuf, String)> = vec![];
    let mut known_hits: BTreeMap<String, (String, u64)> = BTreeMap::new();
    let mut machinery: Option<String> = None;
    let mut samples: Vec<Value> = vec![];
    let mut bounds_desc: Vec<String> = vec![];
    for spec in def.worlds {
        if let Some(w) = &args.only_world {
            if !spec.name.contains(w.as_str()) {
                continue;
            }
        }
        let target = WorldTarget { spec, oracle: def.oracle, digest: false };
        let left = deadline.saturating_duration_since(Instant::now());
        if left.is_zero() {
            total.capped = true;
            machinery = Some(format!("wall-clock cap hit before world {}", target.spec.name));
            break;
        }
        let st = explore(&target, args.threads, left, samples.len() < 3);
        if args.verbose {
            eprintln!(
                "{:<40} execs={:>10} states={:>11} outcomes={:>7} viol_execs={:>8} sigs={} {:.1}s",
                target.spec.name,
                st.execs,
                st.states,
                st.outcomes.len(),
                st.violating_execs,
                st.found.len(),
                st.wall_s
            );
        }
        per_world.push(json!({
            "world": target.spec.name,
            "executions": st.execs,
            "states": st.states,
            "distinct_outcomes": st.outcomes.len(),
            "distinct_nontrivial": st.nontrivial.len(),
            "E": target.spec.cfg.e, "D": target.spec.cfg.d,
            "max_choice_points": st.max_choices,
            "violating_executions": st.violating_execs,
            "wall_s": (st.wall_s * 100.0).round() / 100.0,
        }));
        bounds_desc.push(format!("{}", target.spec.name));
        if let Some(m) = &st.machinery_fault {
            machinery = Some(m.clone());
        }
        if st.capped {
            machinery = Some(format!("wall-clock cap hit inside world {}", target.spec.name));
        }
        for s in st.samples.iter() {
            if samples.len() < 3 {
                samples.push(json!({"world": target.spec.name, "history": s}));
            }
        }
        let mut founds: Vec<&Found> = st.found.values().collect();
        founds.sort_by(|a, b| (a.cost, &a.script).cmp(&(b.cost, &b.script)));
        for f in founds {
            let k = known.iter().find(|k| k.status == "known" && k.property == id && k.signature == f.viol.sig);
            if let Some(k) = k {
                let e = known_hits.entry(k.signature.clone()).or_insert((k.what.clone(), 0));
                e.1 += f.count;
                continue;
            }
            // validate: replay twice, identical traces, oracle fails again
            let r1 = replay(&target, &f.script, &f.script_n);
            let r2 = replay(&target, &f.script, &f.script_n);
            if r1.trace != r2.trace || r1.fault != r2.fault {
                machinery = Some(format!("replay of a violation in {} is not deterministic", target.spec.name));
                continue;
            }
            if matches!(r1.fault, Some(exec::Fault::Nondet(_)) | Some(exec::Fault::Internal(_))) {
                machinery = Some(format!("replay fault in {}: {:?}", target.spec.name, r1.fault));
                continue;
            }
            let again = target.check(&r1);
            if again.as_ref().map(|v| &v.sig) != Some(&f.viol.sig) {
                machinery = Some(format!(
                    "violation {} in {} did not reproduce on replay (got {:?})",
                    f.viol.sig,
                    target.spec.name,
                    again.map(|v| v.sig)
                ));
                continue;
            }
            let path = write_replay(args, id, &target, f, &r1);
            new_viol.push((path, format!("{} [{}] {}", target.spec.name, f.viol.sig, f.viol.detail)));
        }
        let keep_found = std::mem::take(&mut total.found);
        let mut st2 = st;
        st2.found.clear();
        total.merge(st2);
        total.found = keep_found;
    }
    let wall = t0.elapsed().as_secs_f64();
    // evidence
    let exhaustive = machinery.is_none() && !total.capped;
    let ev = json!({
        "property_id": id,
        "tier": tier_name(args.tier),
        "seed": seed(),
        "level": "model_checking",
        "coverage": {
            "states": total.states,
            "transitions": total.states.saturating_sub(per_world.len() as u64),
            "traces_validated_against_impl": total.execs,
            "evaluations": total.execs,
            "distinct_nontrivial": total.nontrivial.len(),
            "distinct_outcomes": total.outcomes.len(),
            "top_level_events_executed": total.events,
            "rule": "every execution is the real callbag code driven by one path of the choice tree (environment event order + deviations of puppets/probes); states = distinct history prefixes (tree nodes), transitions = tree edges, traces_validated_against_impl = complete executions of the implementation; an outcome is the sequence of messages observed at probes/puppets, non-trivial if a Data or terminal message reached a sink",
            "samples": samples,
            "exhaustive": exhaustive,
            "worlds": per_world,
            "panicking_executions": total.panics,
            "divergent_executions": total.divergences,
            "violating_executions": total.violating_execs,
            "known_finding_signatures": known_hits.keys().collect::<Vec<_>>(),
        },
        "assumptions": [
            "bounded: horizon E top-level events and at most D deviations (nested reactions / non-default peer answers) per execution, per world as listed",
            "peers are spec-conformant puppets/probes; data alphabet is small integers (operators are parametric in T)",
            "late greeting explored for merge only; at most `burst` emissions inside a greeting",
            "an execution is not examined beyond its first violation (choices after it are pruned)"
        ],
        "wall_s": (wall * 100.0).round() / 100.0,
        "violations": new_viol.len(),
    });
    let evdir = args.verif_dir.join("evidence");
    let _ = std::fs::create_dir_all(&evdir);
    std::fs::write(evdir.join(format!("{id}.json")), serde_json::to_string_pretty(&ev).unwrap())
        .expect("write evidence");
    for (sig, (what, n)) in &known_hits {
        println!("KNOWN-FINDING: property={id} {what} [signature {sig}; {n} executions]");
    }
    for (p, d) in &new_viol {
        println!("VIOLATION property={id} replay={}", p.display());
        println!("  {d}");
    }
    println!(
        "{id} {}: {} executions, {} states, {} distinct outcomes, {} new violation signature(s), {} known, {:.1}s",
        tier_name(args.tier),
        total.execs,
        total.states,
        total.outcomes.len(),
        new_viol.len(),
        known_hits.len(),
        wall
    );
    if let Some(m) = machinery {
        eprintln!("MACHINERY FAULT: {m}");
        return 2;
    }
    if !new_viol.is_empty() {
        return 1;
    }
    0
}

fn run_replay(args: &Args) -> i32 {
    let path = args.replay.clone().expect("--replay FILE");
    let s = std::fs::read_to_string(&path).expect("read replay file");
    let v: Value = serde_json::from_str(&s).expect("parse replay file");
    let id = v["property"].as_str().unwrap().to_string();
    let wname = v["world"].as_str().unwrap().to_string();
    let script: Vec<u16> = v["script"].as_array().unwrap().iter().map(|x| x.as_u64().unwrap() as u16).collect();
    let script_n: Vec<u16> = v["script_n"].as_array().unwrap().iter().map(|x| x.as_u64().unwrap() as u16).collect();
    let mut target = None;
    for tier in [Tier::Quick, Tier::Thorough] {
        if let Some(def) = check_def(&id, tier) {
            for spec in def.worlds {
                if spec.name == wname {
                    target = Some(WorldTarget { spec, oracle: def.oracle, digest: false });
                    break;
                }
            }
        }
        if target.is_some() {
            break;
        }
    }
    let Some(target) = target else {
        eprintln!("world {wname} not found for {id}");
        return 2;
    };
    let ex = replay(&target, &script, &script_n);
    for (i, c) in ex.choices.iter().enumerate().take(script.len()) {
        println!("choice {i}: [{}/{}] {}", c.pick, c.n, exec::render_choice(&ex, c));
    }
    for (i, l) in exec::render_trace(&ex).iter().enumerate() {
        println!("{i:4} {l}");
    }
    if let Some(f) = &ex.fault {
        if !matches!(f, exec::Fault::Divergence) {
            eprintln!("MACHINERY FAULT: {f:?}");
            return 2;
        }
    }
    match target.check(&ex) {
        Some(v) => {
            println!("VIOLATION property={id} replay={}", path.display());
            println!("  clause {} at trace index {}: {}", v.clause, v.at, v.detail);
            1
        },
        None => {
            println!("no violation on this history");
            0
        },
    }
}

fn main() {
    let args = parse_args();
    silent_panics();
    let code = match args.cmd.as_str() {
        "check" => {
            if args.replay.is_some() {
                run_replay(&args)
            } else {
                run_check(&args)
            }
        },
        "replay" => run_replay(&args),
        _ => {
            eprintln!("usage: cbmc check <ID> [--tier quick|thorough] [--replay FILE] [--world SUBSTR] [-v]");
            2
        },
    };
    std::process::exit(code);
}
