//! Mock `Nurse<()> + Timer` with a virtual clock. Tasks are polled only by explorer events.

use crate::exec::*;
use async_executors::Timer;
use async_nursery::{Nurse, NurseErr};
use futures_core::future::BoxFuture;
use futures_task::FutureObj;
use std::cell::RefCell;
use std::future::Future;
use std::pin::Pin;
use std::sync::atomic::{AtomicBool, Ordering};
use std::sync::Arc;
use std::task::{Context, Poll, RawWaker, RawWakerVTable, Waker};
use std::time::Duration;

struct TaskRt {
    fut: Option<FutureObj<'static, ()>>,
    pending: Option<Arc<AtomicBool>>,
}

thread_local! {
    static TASKS: RefCell<Vec<TaskRt>> = const { RefCell::new(Vec::new()) };
    static POLLING: RefCell<Option<u8>> = const { RefCell::new(None) };
}

pub fn reset() {
    TASKS.with(|t| t.borrow_mut().clear());
    POLLING.with(|p| *p.borrow_mut() = None);
}

#[derive(Clone, Debug, Default)]
pub struct MockNursery;

impl Nurse<()> for MockNursery {
    fn nurse_obj(&self, fut: FutureObj<'static, ()>) -> Result<(), NurseErr> {
        let t = TASKS.with(|t| t.borrow().len()) as u8;
        let allow_fail = with(|ex| ex.cfg.spawn_fail);
        let res = if allow_fail {
            choose_opt(
                Kind::Dev,
                What::SpawnRes(t),
                &[opt::OK, opt::FAIL_SPAWN, opt::FAIL_CLOSED],
            )
        } else {
            opt::OK
        };
        if res != opt::OK {
            rec(Ev::Spawn(t, false));
            drop(fut);
            return Err(if res == opt::FAIL_SPAWN { NurseErr::Spawn } else { NurseErr::Closed });
        }
        TASKS.with(|ts| ts.borrow_mut().push(TaskRt { fut: Some(fut), pending: None }));
        with(|ex| {
            ex.tasks.push(TaskSt { alive: true, sleeping: false, fires: 0 });
        });
        rec(Ev::Spawn(t, true));
        Ok(())
    }
}

struct SleepFut(Arc<AtomicBool>);
impl Future for SleepFut {
    type Output = ();
    fn poll(self: Pin<&mut Self>, _cx: &mut Context<'_>) -> Poll<()> {
        if self.0.load(Ordering::SeqCst) {
            Poll::Ready(())
        } else {
            Poll::Pending
        }
    }
}

impl Timer for MockNursery {
    fn sleep(&self, dur: Duration) -> BoxFuture<'static, ()> {
        let t = POLLING.with(|p| *p.borrow()).unwrap_or(u8::MAX);
        let flag = Arc::new(AtomicBool::new(false));
        rec(Ev::Sleep(t, dur.as_micros() as u64));
        if t != u8::MAX {
            TASKS.with(|ts| ts.borrow_mut()[t as usize].pending = Some(flag.clone()));
            with(|ex| ex.tasks[t as usize].sleeping = true);
        }
        Box::pin(SleepFut(flag))
    }
}

fn noop_waker() -> Waker {
    fn clone(_: *const ()) -> RawWaker {
        RawWaker::new(std::ptr::null(), &VT)
    }
    fn noop(_: *const ()) {}
    static VT: RawWakerVTable = RawWakerVTable::new(clone, noop, noop, noop);
    unsafe { Waker::from_raw(RawWaker::new(std::ptr::null(), &VT)) }
}

fn poll_task(t: u8) {
    let fut = TASKS.with(|ts| ts.borrow_mut()[t as usize].fut.take());
    let Some(mut fut) = fut else { return };
    POLLING.with(|p| *p.borrow_mut() = Some(t));
    rec(Ev::In(Actor::Task(t), M::Pull));
    let w = noop_waker();
    let mut cx = Context::from_waker(&w);
    let r = Pin::new(&mut fut).poll(&mut cx);
    rec(Ev::Out(Actor::Task(t)));
    POLLING.with(|p| *p.borrow_mut() = None);
    match r {
        Poll::Ready(()) => with(|ex| {
            ex.tasks[t as usize].alive = false;
            ex.tasks[t as usize].sleeping = false;
        }),
        Poll::Pending => TASKS.with(|ts| ts.borrow_mut()[t as usize].fut = Some(fut)),
    }
}

/// one period elapses for task t
pub fn fire(t: u8) {
    let started = TASKS.with(|ts| ts.borrow()[t as usize].pending.is_some());
    if !started {
        poll_task(t);
    }
    let flag = TASKS.with(|ts| ts.borrow_mut()[t as usize].pending.take());
    if let Some(f) = flag {
        f.store(true, Ordering::SeqCst);
        with(|ex| {
            ex.tasks[t as usize].sleeping = false;
            ex.tasks[t as usize].fires += 1;
        });
        poll_task(t);
    }
}

/// spurious wake-up
pub fn poll(t: u8) {
    poll_task(t);
}
