//! C13: subscriptions are independent. Differential oracle with no expected values: project a
//! two-subscription run onto each subscription, replay that projection in the solo world by
//! identity, and require identical menus and identical traces.

use super::*;
use crate::world::{run_world_with, WorldSpec};
use std::collections::VecDeque;

struct Owners {
    sub: Vec<Option<u8>>,
    task: Vec<Option<u8>>,
}

/// which subscription is being set up at this point: the innermost nested-subscription frame
/// (`Send(Probe q, Hs)`), else the top-level `Subscribe(p)` event
fn subscribing_probe(stack: &[Frame], top: Option<EvId>) -> Option<u8> {
    for fr in stack.iter().rev() {
        if let (Actor::Probe(q), M::Hs, true) = (fr.actor, fr.msg, fr.is_send) {
            return Some(q);
        }
    }
    match top {
        Some(EvId::Subscribe(p)) => Some(p),
        _ => None,
    }
}

fn compute_owners(ex: &Exec) -> Owners {
    let sub = owners(ex);
    let mut task: Vec<Option<u8>> = vec![];
    walk(ex, |_i, ev, stack, top| {
        if let Ev::Spawn(t, true) = ev {
            while task.len() <= *t as usize {
                task.push(None);
            }
            task[*t as usize] = subscribing_probe(stack, top);
        }
    });
    Owners { sub, task }
}

/// owner of the subscription being set up when trace position `tpos` was reached
fn subscribing_probe_at(ex: &Exec, tpos: usize) -> Option<u8> {
    let mut res = None;
    let mut done = false;
    walk(ex, |i, _ev, stack, top| {
        if i == tpos && !done {
            res = subscribing_probe(stack, top);
            done = true;
        }
    });
    if !done {
        // the choice was made after the last recorded event: reconstruct the final stack
        let mut stack: Vec<Frame> = vec![];
        let mut top = None;
        for (i, ev) in ex.trace.iter().enumerate() {
            match ev {
                Ev::Top(e) => {
                    stack.clear();
                    top = Some(*e);
                },
                Ev::In(a, m) => stack.push(Frame { actor: *a, msg: *m, is_send: false, start: i }),
                Ev::Send(a, m) => stack.push(Frame { actor: *a, msg: *m, is_send: true, start: i }),
                Ev::Out(_) | Ev::Ret(_) => {
                    stack.pop();
                },
                _ => {},
            }
        }
        res = subscribing_probe(&stack, top);
    }
    res
}

struct Renamer<'a> {
    own: &'a Owners,
    x: u8,
}

impl<'a> Renamer<'a> {
    fn sub(&self, s: u16) -> Option<u16> {
        if self.own.sub.get(s as usize).copied().flatten() != Some(self.x) {
            return None;
        }
        Some(self.own.sub[..s as usize].iter().filter(|o| **o == Some(self.x)).count() as u16)
    }
    fn task(&self, t: u8) -> Option<u8> {
        if self.own.task.get(t as usize).copied().flatten() != Some(self.x) {
            return None;
        }
        Some(self.own.task[..t as usize].iter().filter(|o| **o == Some(self.x)).count() as u8)
    }
    fn tasks_before(&self, t: u8) -> u8 {
        self.own.task[..(t as usize).min(self.own.task.len())].iter().filter(|o| **o == Some(self.x)).count() as u8
    }
    fn probe(&self, p: u8) -> Option<u8> {
        if p == self.x {
            Some(0)
        } else {
            None
        }
    }
    fn actor(&self, a: Actor) -> Option<Actor> {
        Some(match a {
            Actor::Probe(p) => Actor::Probe(self.probe(p)?),
            Actor::Sub(s) => Actor::Sub(self.sub(s)?),
            Actor::TapDown(t, k) => Actor::TapDown(self.probe(t)?, k),
            Actor::TapUp(t, k) => Actor::TapUp(self.probe(t)?, k),
            Actor::Task(t) => Actor::Task(self.task(t)?),
        })
    }
    fn evid(&self, e: EvId) -> Option<EvId> {
        Some(match e {
            EvId::Subscribe(p) => EvId::Subscribe(self.probe(p)?),
            EvId::ProbePull(p) => EvId::ProbePull(self.probe(p)?),
            EvId::ProbeTerm(p) => EvId::ProbeTerm(self.probe(p)?),
            EvId::ProbeErr(p) => EvId::ProbeErr(self.probe(p)?),
            EvId::SubGreet(s) => EvId::SubGreet(self.sub(s)?),
            EvId::SubData(s) => EvId::SubData(self.sub(s)?),
            EvId::SubTerm(s) => EvId::SubTerm(self.sub(s)?),
            EvId::SubErr(s) => EvId::SubErr(self.sub(s)?),
            EvId::SubAnsData(s) => EvId::SubAnsData(self.sub(s)?),
            EvId::SubAnsTerm(s) => EvId::SubAnsTerm(self.sub(s)?),
            EvId::SubAnsErr(s) => EvId::SubAnsErr(self.sub(s)?),
            EvId::Fire(t) => EvId::Fire(self.task(t)?),
            EvId::Poll(t) => EvId::Poll(self.task(t)?),
        })
    }
}

/// error ids are allocated in creation order across both subscriptions: renumber per projection
fn renumber_errs(trace: &mut [Ev]) {
    let mut map: Vec<u16> = vec![];
    let mut ren = |id: u16| -> u16 {
        if let Some(i) = map.iter().position(|x| *x == id) {
            i as u16
        } else {
            map.push(id);
            (map.len() - 1) as u16
        }
    };
    for ev in trace.iter_mut() {
        match ev {
            Ev::In(_, M::Err(id)) | Ev::Send(_, M::Err(id)) => *id = ren(*id),
            _ => {},
        }
    }
}

fn project(ex: &Exec, own: &Owners, x: u8) -> (VecDeque<GuideRec>, Vec<Ev>) {
    let r = Renamer { own, x };
    // trace projection: an event belongs to X if its actor does; actor-less events belong to the
    // owner of the innermost open frame, else to the owner of the current top-level event
    let mut out: Vec<Ev> = vec![];
    let mut keep_idx: Vec<bool> = vec![false; ex.trace.len()];
    let mut top_is_x = false;
    // start indices of nested-subscription frames (Send(Probe x, Hs)) whose Ret must be dropped
    let mut synth: Vec<usize> = vec![];
    walk(ex, |i, ev, stack, _| {
        let mine_ctx = match stack.last() {
            Some(fr) => r.actor(fr.actor).is_some(),
            None => top_is_x,
        };
        // a probe action of X performed from inside another subscription's handler is a
        // top-level event of X's own history
        let cross = !top_is_x && !stack.iter().any(|fr| r.actor(fr.actor).is_some());
        let e2: Option<Ev> = match ev {
            Ev::Top(e) => {
                let m = r.evid(*e);
                top_is_x = m.is_some();
                m.map(Ev::Top)
            },
            Ev::In(a, m) => r.actor(*a).map(|a| Ev::In(a, *m)),
            Ev::Out(a) => r.actor(*a).map(Ev::Out),
            Ev::Send(Actor::Probe(p), M::Hs) if *p == x => {
                // nested subscription of X: the forced first step of its solo run
                synth.push(i);
                Some(Ev::Top(EvId::Subscribe(0)))
            },
            Ev::Send(Actor::Probe(p), m) if *p == x && cross => {
                out.push(Ev::Top(match m {
                    M::Pull => EvId::ProbePull(0),
                    M::Err(_) => EvId::ProbeErr(0),
                    _ => EvId::ProbeTerm(0),
                }));
                Some(Ev::Send(Actor::Probe(0), *m))
            },
            Ev::Ret(Actor::Probe(p)) if *p == x && stack.last().map(|fr| synth.contains(&fr.start)).unwrap_or(false) => None,
            Ev::Send(a, m) => r.actor(*a).map(|a| Ev::Send(a, *m)),
            Ev::Ret(a) => r.actor(*a).map(Ev::Ret),
            Ev::Call(id, v) => mine_ctx.then_some(Ev::Call(*id, *v)),
            Ev::Spawn(t, ok) => mine_ctx.then(|| Ev::Spawn(r.tasks_before(*t), *ok)),
            Ev::Sleep(t, ms) => r.task(*t).map(|t| Ev::Sleep(t, *ms)),
            Ev::Panic => mine_ctx.then_some(Ev::Panic),
            Ev::Stray(a) => mine_ctx.then_some(Ev::Stray(*a)),
            Ev::Defer(s) => r.sub(*s).map(Ev::Defer),
            Ev::Nested(e) => r.evid(*e).map(Ev::Nested),
        };
        if let Some(e) = e2 {
            keep_idx[i] = true;
            out.push(e);
        }
    });
    renumber_errs(&mut out);
    // choices projection
    let mut guide = VecDeque::new();
    for c in &ex.choices {
        let rec = match c.what {
            What::Event => {
                let picked = ex.menus[c.menu_idx as usize][c.pick as usize];
                match r.evid(picked) {
                    // B's Subscribe is the forced first step of its solo run, not a choice there
                    Some(EvId::Subscribe(_)) | None => None,
                    Some(t) => Some(GuideRec { kind: c.kind, what: What::Event, n: 0, pick: 0, menu: [0; 8], target: Some(t) }),
                }
            },
            What::React(p, mk) | What::React2(p, mk) => {
                let is2 = matches!(c.what, What::React2(..));
                let is_cross = |code: u8| (opt::PULL_OTHER0..opt::PULL_OTHER0 + 8).contains(&code) || code == opt::SUBSCRIBE_NEXT || (opt::DISPOSE_OTHER0..opt::DISPOSE_OTHER0 + 6).contains(&code);
                let picked = c.menu[(c.pick as usize).min(7)];
                if p == x {
                    // X's own view: cross options do not exist in its solo world; having used one is
                    // "did nothing" as far as X's subscription is concerned
                    let mut m2 = [0u8; 8];
                    let mut n2 = 0usize;
                    let mut pick2 = 0u16;
                    for k in 0..(c.n as usize).min(8) {
                        if !is_cross(c.menu[k]) {
                            if k == c.pick as usize {
                                pick2 = n2 as u16;
                            }
                            m2[n2] = c.menu[k];
                            n2 += 1;
                        }
                    }
                    if n2 < 2 {
                        None
                    } else {
                        let w = if is2 { What::React2(0, mk) } else { What::React(0, mk) };
                        Some(GuideRec { kind: c.kind, what: w, n: n2 as u16, pick: pick2, menu: m2, target: None })
                    }
                } else if (opt::PULL_OTHER0..opt::PULL_OTHER0 + 8).contains(&picked) && picked - opt::PULL_OTHER0 == x {
                    Some(GuideRec { kind: Kind::Event, what: What::Event, n: 0, pick: 0, menu: [0; 8], target: Some(EvId::ProbePull(0)) })
                } else if (opt::DISPOSE_OTHER0..opt::DISPOSE_OTHER0 + 6).contains(&picked) && picked - opt::DISPOSE_OTHER0 == x {
                    Some(GuideRec { kind: Kind::Event, what: What::Event, n: 0, pick: 0, menu: [0; 8], target: Some(EvId::ProbeTerm(0)) })
                } else {
                    None
                }
            },
            What::Greet(s) => r.sub(s).map(|s| GuideRec { kind: c.kind, what: What::Greet(s), n: c.n, pick: c.pick, menu: c.menu, target: None }),
            What::Burst(s) => r.sub(s).map(|s| GuideRec { kind: c.kind, what: What::Burst(s), n: c.n, pick: c.pick, menu: c.menu, target: None }),
            What::OnPull(s) => r.sub(s).map(|s| GuideRec { kind: c.kind, what: What::OnPull(s), n: c.n, pick: c.pick, menu: c.menu, target: None }),
            What::Pick(s) => r.sub(s).map(|s| GuideRec { kind: c.kind, what: What::Pick(s), n: c.n, pick: c.pick, menu: c.menu, target: None }),
            What::SpawnRes(t) => match subscribing_probe_at(ex, c.tpos as usize) {
                Some(p) if p == x => Some(GuideRec { kind: c.kind, what: What::SpawnRes(r.tasks_before(t)), n: c.n, pick: c.pick, menu: c.menu, target: None }),
                _ => None,
            },
            What::Sched | What::Nested(_) => None,
        };
        if let Some(g) = rec {
            guide.push_back(g);
        }
    }
    (guide, out)
}

fn show(ev: &[Ev], k: usize) -> String {
    let lo = k.saturating_sub(3);
    let hi = (k + 2).min(ev.len());
    format!("{:?}", &ev[lo..hi])
}

pub fn c13(spec: &WorldSpec, ex: &Exec) -> Option<Viol> {
    if ex.fault.is_some() {
        return None;
    }
    let own = compute_owners(ex);
    let mut solo = spec.clone();
    solo.cfg.max_probes = 1;
    // the solo replay ends when the projected history is exhausted, not at the product world's
    // horizon (cross-subscription actions are extra top-level events of the solo history)
    solo.cfg.e = 10_000;
    let nprobes = ex.probes.iter().filter(|p| p.subscribed).count();
    let mut best: Option<Viol> = None;
    for x in 0..nprobes as u8 {
        let (guide, want) = project(ex, &own, x);
        let sx = run_world_with(&solo, &[], &[], false, Some(guide));
        if let Some(Fault::Internal(s)) | Some(Fault::Nondet(s)) = &sx.fault {
            return Some(viol(spec, "solo-replay-fault", 0, format!("solo replay of subscription {x} faulted: {s}")));
        }
        // position of the first difference, mapped back to the product trace for pruning
        let first_diff = sx.trace.iter().zip(want.iter()).position(|(a, b)| a != b).or_else(|| {
            if sx.trace.len() != want.len() {
                Some(sx.trace.len().min(want.len()))
            } else {
                None
            }
        });
        let mut solo_trace = sx.trace.clone();
        renumber_errs(&mut solo_trace);
        let first_diff = if solo_trace == want { None } else { first_diff.or(Some(0)) };
        let v = if let Some(k) = first_diff {
            let detail = match &sx.guide_mismatch {
                Some(m) => format!("subscription {x}: {m}; traces agree up to event {k}: two-subscription projection {} vs solo {}", show(&want, k), show(&solo_trace, k)),
                None => format!("subscription {x} behaves differently when another subscription exists: at event {k} the projection of the two-subscription run has {} but the solo run has {}", show(&want, k), show(&solo_trace, k)),
            };
            Some(viol(spec, "not-independent", ex.trace.len().saturating_sub(1), detail))
        } else {
            sx.guide_mismatch.as_ref().map(|m| viol(spec, "menu-differs", ex.trace.len().saturating_sub(1), format!("subscription {x}: {m}")))
        };
        best = earliest(best, v);
    }
    best
}
