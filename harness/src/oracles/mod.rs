//! Oracles: post-hoc analysis of one execution's trace. Each clause is tied to one sentence of
//! one property; each returns the earliest violation.

pub mod c13;
pub mod proto;
pub mod sem;

use crate::exec::*;
use crate::explore::Viol;
use crate::world::WorldSpec;

/// A frame open on the (reconstructed) call stack.
#[derive(Clone, Copy, Debug)]
pub struct Frame {
    pub actor: Actor,
    pub msg: M,
    pub is_send: bool,
    pub start: usize,
}

/// Walk the trace, maintaining the stack of open frames. The callback sees the stack *before*
/// the event is applied (so for In/Send the new frame is not yet on it, for Out/Ret the closing
/// frame still is).
pub fn walk(ex: &Exec, mut f: impl FnMut(usize, &Ev, &[Frame], Option<EvId>)) {
    let mut stack: Vec<Frame> = Vec::with_capacity(16);
    let mut top: Option<EvId> = None;
    for (i, ev) in ex.trace.iter().enumerate() {
        if let Ev::Top(e) = ev {
            // a panic may leave frames open
            stack.clear();
            top = Some(*e);
        }
        f(i, ev, &stack, top);
        match ev {
            Ev::In(a, m) => stack.push(Frame { actor: *a, msg: *m, is_send: false, start: i }),
            Ev::Send(a, m) => stack.push(Frame { actor: *a, msg: *m, is_send: true, start: i }),
            Ev::Out(_) | Ev::Ret(_) => {
                stack.pop();
            },
            _ => {},
        }
    }
}

/// owner probe of every puppet subscription (the probe subscription it was created for)
pub fn owners(ex: &Exec) -> Vec<Option<u8>> {
    let mut own: Vec<Option<u8>> = vec![None; ex.subs.len()];
    walk(ex, |_i, ev, stack, top| {
        if let Ev::In(Actor::Sub(s), M::Hs) = ev {
            let mut o = None;
            for fr in stack.iter().rev() {
                match fr.actor {
                    Actor::Probe(p) => {
                        o = Some(p);
                        break;
                    },
                    Actor::Sub(s2) => {
                        o = own.get(s2 as usize).copied().flatten();
                        break;
                    },
                    Actor::TapUp(t, _) | Actor::TapDown(t, _) => {
                        o = Some(t);
                        break;
                    },
                    _ => {},
                }
            }
            if o.is_none() {
                if let Some(EvId::Subscribe(p)) = top {
                    o = Some(p);
                }
            }
            if (*s as usize) < own.len() {
                own[*s as usize] = o;
            }
        }
    });
    own
}

pub fn viol(spec: &WorldSpec, clause: &str, at: usize, detail: String) -> Viol {
    Viol {
        clause: clause.to_string(),
        at,
        detail,
        sig: format!("{}/{}", spec.family(), clause),
    }
}

pub fn viol_pred(spec: &WorldSpec, clause: &str, pred: &str, at: usize, detail: String) -> Viol {
    Viol {
        clause: clause.to_string(),
        at,
        detail,
        sig: format!("{}/{}/{}", spec.family(), clause, pred),
    }
}

pub fn earliest(a: Option<Viol>, b: Option<Viol>) -> Option<Viol> {
    match (a, b) {
        (Some(x), Some(y)) => Some(if y.at < x.at { y } else { x }),
        (x, None) => x,
        (None, y) => y,
    }
}

/// indices of the trace where a top-level event ends (quiescent points): the index of the next
/// `Top` marker, and the end of the trace
pub fn quiescent_points(ex: &Exec) -> Vec<usize> {
    let mut v = Vec::new();
    for (i, ev) in ex.trace.iter().enumerate() {
        if i > 0 && matches!(ev, Ev::Top(_)) {
            v.push(i);
        }
    }
    if !ex.panicked && ex.fault.is_none() {
        v.push(ex.trace.len());
    }
    v
}
