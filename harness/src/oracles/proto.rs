//! Protocol-level oracles: C01 greet-first, C02 termination final, C03 disposal respected,
//! C04 upstream hygiene, C05 errors not lost, C17 no panics.

use super::*;
use crate::world::Op;

fn share_pred(ex: &Exec, at: usize) -> &'static str {
    // discriminating predicate for share findings, computed over the top-level event in which
    // the offending delivery happened: did the source emit from inside one of share's own
    // deliveries (nested fan-out), or did a sink dispose another sink from inside a handler
    // (cross-sink disposal during fan-out)?
    let mut nested = false;
    let mut cross = false;
    walk(ex, |i, ev, stack, _| {
        if i > at {
            return;
        }
        if let Ev::Top(_) = ev {
            nested = false;
            cross = false;
        }
        if let Ev::Send(Actor::Sub(_), _) = ev {
            if stack.iter().any(|f| f.is_send && matches!(f.actor, Actor::Sub(_))) {
                nested = true;
            }
        }
        if let Ev::Send(Actor::Probe(p), m) = ev {
            if m.is_terminal() {
                for fr in stack.iter() {
                    if let Actor::Probe(q) = fr.actor {
                        if q != *p && !fr.is_send {
                            cross = true;
                        }
                    }
                }
            }
        }
    });
    if nested {
        "nested-fanout"
    } else if cross {
        "cross-sink-disposal"
    } else {
        "plain"
    }
}

fn mk(spec: &WorldSpec, ex: &Exec, clause: &str, at: usize, detail: String) -> Viol {
    if spec.op == Op::Share || matches!(spec.op, Op::Net(n) if n.starts_with("share(")) {
        viol_pred(spec, clause, share_pred(ex, at), at, detail)
    } else {
        viol(spec, clause, at, detail)
    }
}

/// C01: at most one greeting per probe subscription; nothing before the greeting
/// (sanctioned exception: interval refusing a subscription with exactly one Error).
pub fn c01(spec: &WorldSpec, ex: &Exec) -> Option<Viol> {
    let np = ex.probes.len();
    let mut greeted = vec![0u32; np];
    let mut refused = vec![false; np];
    for (i, ev) in ex.trace.iter().enumerate() {
        if let Ev::In(Actor::Probe(p), m) = ev {
            let p = *p as usize;
            match m {
                M::Hs => {
                    greeted[p] += 1;
                    if greeted[p] > 1 {
                        return Some(mk(spec, ex, "greeted-twice", i, format!("probe {p} greeted a second time")));
                    }
                    if refused[p] {
                        return Some(mk(spec, ex, "greeted-after-refusal", i, format!("probe {p} greeted after the refusal Error")));
                    }
                },
                _ => {
                    if greeted[p] == 0 {
                        if matches!(spec.op, Op::Interval(_)) && matches!(m, M::Err(_)) && !refused[p] {
                            // interval's single refusal Error: only if its spawn was refused
                            let spawn_failed = ex.trace[..i].iter().rev().find_map(|e| match e {
                                Ev::Spawn(_, ok) => Some(!*ok),
                                Ev::Top(_) => Some(false),
                                _ => None,
                            });
                            if spawn_failed == Some(true) {
                                refused[p] = true;
                                continue;
                            }
                        }
                        return Some(mk(spec, ex, "message-before-greeting", i, format!("probe {p} received {m:?} before any Handshake")));
                    }
                },
            }
        }
    }
    None
}

/// C02: at most one terminal message per probe subscription and nothing after it.
pub fn c02(spec: &WorldSpec, ex: &Exec) -> Option<Viol> {
    let np = ex.probes.len();
    let mut term: Vec<Option<M>> = vec![None; np];
    for (i, ev) in ex.trace.iter().enumerate() {
        if let Ev::In(Actor::Probe(p), m) = ev {
            let p = *p as usize;
            if let Some(t) = term[p] {
                let clause = if m.is_terminal() { "second-terminal" } else { "delivery-after-terminal" };
                return Some(mk(spec, ex, clause, i, format!("probe {p} received {m:?} after {t:?}")));
            }
            if m.is_terminal() {
                term[p] = Some(*m);
            }
        }
    }
    None
}

/// C03: after the probe began sending Terminate/Error, no delivery to it begins.
pub fn c03(spec: &WorldSpec, ex: &Exec) -> Option<Viol> {
    let np = ex.probes.len();
    let mut disposed = vec![false; np];
    for (i, ev) in ex.trace.iter().enumerate() {
        match ev {
            Ev::Send(Actor::Probe(p), m) if m.is_terminal() => disposed[*p as usize] = true,
            Ev::In(Actor::Probe(p), m) => {
                if disposed[*p as usize] {
                    let clause = if m.is_terminal() { "mutual-termination" } else { "delivery-after-disposal" };
                    return Some(mk(spec, ex, clause, i, format!("probe {p} received {m:?} after it disposed")));
                }
            },
            _ => {},
        }
    }
    None
}

fn pass_through(op: &Op) -> bool {
    match op {
        Op::Map | Op::Filter(_) | Op::Scan(_) | Op::Take(_) | Op::Skip(_) => true,
        Op::Comp(a, b) => pass_through(a) && pass_through(b),
        _ => false,
    }
}

/// C04: operators are conformant sinks toward their sources; no orphaned, doubly terminated or
/// superfluous upstream subscription.
pub fn c04(spec: &WorldSpec, ex: &Exec) -> Option<Viol> {
    let ns = ex.subs.len();
    let own = owners(ex);
    let np = ex.probes.len().max(own.iter().flatten().map(|p| *p as usize + 1).max().unwrap_or(0));
    // per sub
    let mut self_ended = vec![false; ns];
    let mut stops: Vec<u32> = vec![0; ns];
    let mut stop_msg: Vec<Option<M>> = vec![None; ns];
    let mut greeted = vec![false; ns];
    // per probe
    let mut p_over = vec![false; np];
    let mut p_sent_err: Vec<Option<u16>> = vec![None; np];
    let mut p_recv_err = vec![false; np];
    let is_share = spec.op == Op::Share || matches!(spec.op, Op::Net(n) if n.starts_with("share("));
    let is_flatten = spec.op == Op::Flatten || matches!(spec.op, Op::Net(n) if n.contains("flatten"));
    let is_foreach = matches!(spec.op, Op::ForEach(_)) || matches!(spec.op, Op::Net(n) if n.starts_with("for_each("));
    let mut found: Option<Viol> = None;
    let mut subs_per: std::collections::HashMap<(u8, u8), u32> = Default::default();
    let q = quiescent_points(ex);
    let mut qi = 0;
    let mut open_outer_data: Vec<(usize, u32)> = vec![]; // flatten: (frame start, inner subs seen)
    let mut live_share_subs = 0i32;
    walk(ex, |i, ev, stack, _top| {
        if found.is_some() {
            return;
        }
        // quiescent check before processing event i when i is a quiescent point
        while qi < q.len() && q[qi] <= i {
            if q[qi] == i {
                if let Some(v) = quiescent_c04(spec, ex, i, &own, &p_over, &greeted, &self_ended, &stops, is_share) {
                    found = Some(v);
                    return;
                }
            }
            qi += 1;
        }
        match ev {
            Ev::Send(Actor::Probe(p), m) if m.is_terminal() => {
                p_over[*p as usize] = true;
                if let M::Err(id) = m {
                    p_sent_err[*p as usize] = Some(*id);
                }
            },
            Ev::In(Actor::Probe(p), m) if m.is_terminal() => {
                p_over[*p as usize] = true;
                if matches!(m, M::Err(_)) {
                    p_recv_err[*p as usize] = true;
                }
            },
            Ev::In(Actor::TapDown(t, _), m) if m.is_terminal() && is_foreach => {
                p_over[*t as usize] = true;
            },
            Ev::Send(Actor::Sub(s), m) => {
                let s = *s as usize;
                if m.is_terminal() {
                    self_ended[s] = true;
                    if is_share {
                        live_share_subs -= 1;
                    }
                }
                if *m == M::Hs {
                    greeted[s] = true;
                }
                if let (true, M::Data(Val::Src(_))) = (is_flatten, m) {
                    open_outer_data.push((i, 0));
                }
            },
            Ev::Ret(Actor::Sub(_)) => {
                if let Some(fr) = stack.last() {
                    if let Some(last) = open_outer_data.last() {
                        if last.0 == fr.start {
                            open_outer_data.pop();
                        }
                    }
                }
            },
            Ev::In(Actor::Sub(s), m) => {
                let su = *s as usize;
                let st = &ex.subs[su];
                match m {
                    M::Hs => {
                        // a new upstream subscription
                        let o = own[su];
                        if let Some(p) = o {
                            if !is_share && p_over.get(p as usize).copied().unwrap_or(false) {
                                found = Some(viol(spec, "subscribed-after-output-over", i, format!("puppet {} subscribed (sub {s}) although the output for probe {p} is over", st.puppet)));
                                return;
                            }
                            let inner_of_flatten = is_flatten && st.puppet != 0;
                            if inner_of_flatten {
                                match open_outer_data.last_mut() {
                                    Some(last) => {
                                        last.1 += 1;
                                        if last.1 > 1 {
                                            found = Some(viol(spec, "inner-subscribed-twice", i, format!("inner puppet {} subscribed twice for one outer emission", st.puppet)));
                                            return;
                                        }
                                    },
                                    None => {
                                        found = Some(viol(spec, "inner-subscribed-outside-emission", i, format!("inner puppet {} subscribed outside of an outer Data delivery", st.puppet)));
                                        return;
                                    },
                                }
                            } else if is_share {
                                live_share_subs += 1;
                                if live_share_subs > 1 && spec.op == Op::Share {
                                    found = Some(viol(spec, "two-live-upstream-subscriptions", i, "share holds two live upstream subscriptions".into()));
                                    return;
                                }
                            } else {
                                let c = subs_per.entry((p, st.puppet)).or_insert(0);
                                *c += 1;
                                // networks that list the same source value twice re-subscribe it
                                let resubscribes = matches!(spec.op, Op::Net(n) if n.contains("(sh,sh)") || n.contains("(fi,fi)"));
                                if *c > 1 && !resubscribes {
                                    found = Some(viol(spec, "upstream-subscribed-twice", i, format!("puppet {} subscribed twice for probe {p}", st.puppet)));
                                    return;
                                }
                            }
                        }
                    },
                    M::Data(_) => {
                        found = Some(viol(spec, "data-sent-upstream", i, format!("sub {s} received Data on its talkback")));
                        return;
                    },
                    M::Pull | M::Term | M::Err(_) => {
                        if self_ended[su] {
                            found = Some(viol(spec, "message-to-ended-source", i, format!("sub {s} (puppet {}) received {m:?} after it ended by itself", st.puppet)));
                            return;
                        }
                        if stops[su] > 0 {
                            let clause = if m.is_terminal() { "upstream-terminated-twice" } else { "pull-after-stop" };
                            found = Some(viol(spec, clause, i, format!("sub {s} (puppet {}) received {m:?} after {:?}", st.puppet, stop_msg[su])));
                            return;
                        }
                        if m.is_terminal() {
                            stops[su] += 1;
                            stop_msg[su] = Some(*m);
                            if is_share {
                                live_share_subs -= 1;
                            }
                            // error identity through pass-through operators
                            if pass_through(&spec.op) {
                                if let Some(p) = own[su] {
                                    if let Some(id) = p_sent_err[p as usize] {
                                        // the stop caused by the probe's Error must be that Error
                                        let caused_by_probe = stack.iter().any(|f| f.is_send && f.actor == Actor::Probe(p) && f.msg == M::Err(id));
                                        if caused_by_probe && *m != M::Err(id) {
                                            found = Some(viol(spec, "sink-error-not-relayed", i, format!("probe {p} sent Err({id}) but upstream sub {s} received {m:?}")));
                                            return;
                                        }
                                    }
                                }
                            }
                        }
                    },
                }
            },
            Ev::Stray(_) => {
                found = Some(viol(spec, "non-handshake-to-source-fn", i, "a source function received a non-handshake message".into()));
            },
            _ => {},
        }
    });
    if found.is_none() && q.last() == Some(&ex.trace.len()) {
        found = quiescent_c04(spec, ex, ex.trace.len(), &own, &p_over, &greeted, &self_ended, &stops, is_share);
    }
    let _ = p_recv_err;
    found
}

#[allow(clippy::too_many_arguments)]
fn quiescent_c04(
    spec: &WorldSpec,
    ex: &Exec,
    at: usize,
    own: &[Option<u8>],
    p_over: &[bool],
    greeted: &[bool],
    self_ended: &[bool],
    stops: &[u32],
    is_share: bool,
) -> Option<Viol> {
    for s in 0..own.len().min(greeted.len()) {
        if !greeted[s] || self_ended[s] || stops[s] >= 1 {
            continue;
        }
        let over = if is_share {
            // upstream must be stopped when no probe is attached any more
            let subscribed: Vec<usize> = (0..p_over.len()).filter(|p| ex.probes.get(*p).map(|x| x.subscribed).unwrap_or(false)).collect();
            // only probes that subscribed before this point count; probes[] is end-state, so use
            // the trace: a probe is attached if it was greeted before `at` and is not over
            let mut attached = false;
            let mut seen = vec![false; p_over.len()];
            for ev in ex.trace[..at].iter() {
                if let Ev::In(Actor::Probe(p), M::Hs) = ev {
                    seen[*p as usize] = true;
                }
            }
            for p in subscribed {
                if seen[p] && !p_over[p] {
                    attached = true;
                }
            }
            !attached && seen.iter().any(|x| *x)
        } else {
            match own[s] {
                Some(p) => p_over.get(p as usize).copied().unwrap_or(false),
                None => false,
            }
        };
        if over {
            return Some(viol(
                spec,
                "upstream-not-stopped",
                at.saturating_sub(1),
                format!(
                    "at quiescence the output is over but sub {s} (puppet {}) was greeted, has not ended and was never told to stop",
                    ex.subs[s].puppet
                ),
            ));
        }
    }
    None
}

/// C05: an upstream Error reaches the sink(s) exactly once, unchanged; live siblings are disposed.
pub fn c05(spec: &WorldSpec, ex: &Exec) -> Option<Viol> {
    let own = owners(ex);
    let np = ex.probes.len();
    let ns = ex.subs.len();
    let is_share = spec.op == Op::Share || matches!(spec.op, Op::Net(n) if n.starts_with("share("));
    let mut p_over = vec![false; np];
    let mut p_greeted = vec![false; np];
    // share: the upstream subscription each probe is attached to (the one alive when it was greeted)
    let mut attached_to: Vec<Option<u16>> = vec![None; np];
    let mut sub_created_at: Vec<usize> = vec![usize::MAX; ns];
    let mut p_errs: Vec<Vec<u16>> = vec![vec![]; np];
    let mut p_term = vec![false; np];
    let mut self_ended = vec![false; ns];
    let mut stops = vec![0u32; ns];
    let mut greeted = vec![false; ns];
    // pending obligations: (send start idx, err id, probes that must get it)
    let mut open: Vec<(usize, u16, Vec<u8>, u16)> = vec![];
    // obligations to verify at the end of the top-level event: (err id, probes, failing sub)
    let mut at_quiescence: Vec<(u16, Vec<u8>, u16, usize)> = vec![];
    let mut settled: Vec<(u16, Vec<u8>)> = vec![];
    let mut found: Option<Viol> = None;
    let q = quiescent_points(ex);
    let mut qi = 0;
    walk(ex, |i, ev, stack, _| {
        if found.is_some() {
            return;
        }
        while qi < q.len() && q[qi] <= i {
            if q[qi] == i {
                for (id, probes, fs, send_at) in at_quiescence.drain(..) {
                    // remaining live upstreams of those probes are disposed (subscriptions started
                    // after the failure began belong to a later life of the output)
                    for s in 0..ns {
                        if s as u16 == fs || !greeted[s] || self_ended[s] || stops[s] > 0 || sub_created_at[s] > send_at {
                            continue;
                        }
                        let belongs = if is_share { true } else { own[s].map(|p| probes.contains(&p)).unwrap_or(false) };
                        if belongs {
                            found = Some(viol(spec, "sibling-not-disposed", i.saturating_sub(1), format!("after Err({id}) from sub {fs}, live sub {s} (puppet {}) was not disposed", ex.subs[s].puppet)));
                            return;
                        }
                    }
                }
            }
            qi += 1;
        }
        match ev {
            Ev::Send(Actor::Probe(p), m) if m.is_terminal() => p_over[*p as usize] = true,
            Ev::In(Actor::Probe(p), m) => {
                let pu = *p as usize;
                match m {
                    M::Hs => {
                        p_greeted[pu] = true;
                        // newest upstream subscription that has not ended by itself
                        attached_to[pu] = (0..ns).rev().find(|s| sub_created_at[*s] != usize::MAX && !self_ended[*s]).map(|s| s as u16);
                    },
                    M::Err(id) => {
                        p_over[pu] = true;
                        p_errs[pu].push(*id);
                        // a later duplicate of a settled error
                        for (sid, probes) in settled.iter() {
                            if sid == id && probes.contains(p) && p_errs[pu].iter().filter(|x| *x == id).count() > 1 {
                                found = Some(viol(spec, "error-delivered-twice", i, format!("probe {p} received Err({id}) twice")));
                                return;
                            }
                        }
                    },
                    M::Term => {
                        p_over[pu] = true;
                        p_term[pu] = true;
                    },
                    _ => {},
                }
            },
            Ev::Send(Actor::Sub(s), m) => {
                let su = *s as usize;
                if *m == M::Hs {
                    greeted[su] = true;
                }
                if m.is_terminal() {
                    self_ended[su] = true;
                }
                if let M::Err(id) = m {
                    // which probes must receive it: live ones at this moment
                    let probes: Vec<u8> = if is_share && spec.op == Op::Share {
                        (0..np as u8).filter(|p| p_greeted[*p as usize] && !p_over[*p as usize] && attached_to[*p as usize] == Some(*s)).collect()
                    } else if is_share {
                        (0..np as u8).filter(|p| p_greeted[*p as usize] && !p_over[*p as usize]).collect()
                    } else {
                        match own[su] {
                            Some(p) if (p as usize) < np && !p_over[p as usize] => vec![p],
                            _ => vec![],
                        }
                    };
                    open.push((i, *id, probes, *s));
                }
            },
            Ev::In(Actor::Sub(s), M::Hs) => sub_created_at[*s as usize] = i,
            Ev::In(Actor::Sub(s), m) if m.is_terminal() => stops[*s as usize] += 1,
            Ev::Ret(Actor::Sub(_)) => {
                if let Some(fr) = stack.last() {
                    if let Some(pos) = open.iter().position(|o| o.0 == fr.start) {
                        let (_, id, probes, fs) = open.remove(pos);
                        let mut must: Vec<u8> = vec![];
                        for p in probes {
                            let pu = p as usize;
                            let got: usize = p_errs[pu].iter().filter(|x| **x == id).count();
                            // the probe may have disposed by itself meanwhile (sent terminal): then nothing is owed
                            let disposed_meanwhile = ex.trace[fr.start..i].iter().any(|e| matches!(e, Ev::Send(Actor::Probe(q), mm) if *q == p && mm.is_terminal()));
                            if got == 0 && disposed_meanwhile {
                                continue;
                            }
                            // another upstream failed from inside this very delivery chain and its
                            // Error reached the sink first: the sink can be failed only once
                            let overtaken = got == 0
                                && p_errs[pu].len() == 1
                                && !p_term[pu]
                                && ex.trace[fr.start + 1..i].iter().any(|e| matches!(e, Ev::Send(Actor::Sub(_), M::Err(id2)) if *id2 == p_errs[pu][0]));
                            if overtaken {
                                continue;
                            }
                            if got != 1 || p_term[pu] || p_errs[pu].len() != 1 {
                                let clause = if p_term[pu] && got == 0 {
                                    "error-turned-into-completion"
                                } else if got == 0 && p_errs[pu].is_empty() {
                                    "error-dropped"
                                } else if got == 0 {
                                    "error-value-changed"
                                } else {
                                    "error-not-exactly-once"
                                };
                                let pred = if !p_greeted[pu] { "sink-not-yet-greeted" } else { "live" };
                                found = Some(viol_pred(spec, clause, pred, i, format!("sub {fs} (puppet {}) failed with Err({id}) while the output was live; probe {p} has errors {:?}, terminated={}", ex.subs[fs as usize].puppet, p_errs[pu], p_term[pu])));
                                return;
                            }
                            must.push(p);
                        }
                        if !must.is_empty() {
                            at_quiescence.push((id, must.clone(), fs, fr.start));
                            settled.push((id, must));
                        }
                    }
                }
            },
            _ => {},
        }
    });
    if found.is_none() && q.last() == Some(&ex.trace.len()) {
        for (id, probes, fs, send_at) in at_quiescence.drain(..) {
            for s in 0..ns {
                if s as u16 == fs || !greeted[s] || self_ended[s] || stops[s] > 0 || sub_created_at[s] > send_at {
                    continue;
                }
                let belongs = if is_share { true } else { own[s].map(|p| probes.contains(&p)).unwrap_or(false) };
                if belongs {
                    return Some(viol(spec, "sibling-not-disposed", ex.trace.len() - 1, format!("after Err({id}) from sub {fs}, live sub {s} (puppet {}) was not disposed", ex.subs[s].puppet)));
                }
            }
        }
    }
    found
}

/// C17: no step unwinds with a payload that is not the harness's own.
pub fn c17(spec: &WorldSpec, ex: &Exec) -> Option<Viol> {
    if ex.panicked {
        let at = ex.trace.iter().position(|e| matches!(e, Ev::Panic)).unwrap_or(ex.trace.len().saturating_sub(1));
        let msg = ex.panic_msg.clone().unwrap_or_default();
        let key: String = msg.chars().filter(|c| c.is_alphanumeric() || *c == ' ').take(40).collect::<String>().replace(' ', "-");
        return Some(viol_pred(spec, "panic", &key, at, format!("the crate panicked: {msg}")));
    }
    None
}
