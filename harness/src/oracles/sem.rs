//! Semantic oracles (C07-C12, C14-C16): boring reference models evaluated on the trace.

use super::*;
use crate::world::{Op, Pred};
use crate::worlds::CALL_NEXT;

fn innermost_send(stack: &[Frame]) -> Option<&Frame> {
    stack.iter().rev().find(|f| f.is_send)
}
fn innermost_puppet_send(stack: &[Frame]) -> Option<&Frame> {
    stack.iter().rev().find(|f| f.is_send && matches!(f.actor, Actor::Sub(_)))
}

pub fn listfn(op: &Op, xs: &[i64]) -> Vec<i64> {
    match op {
        Op::Map => xs.iter().map(|x| x + 100).collect(),
        Op::Filter(p) => xs.iter().copied().filter(|x| p.eval(*x)).collect(),
        Op::Scan(seed) => {
            let mut acc = *seed;
            xs.iter()
                .map(|x| {
                    acc = acc * 10 + x;
                    acc
                })
                .collect()
        },
        Op::Take(n) => xs.iter().copied().take(*n).collect(),
        Op::Skip(n) => xs.iter().copied().skip(*n).collect(),
        Op::Comp(outer, inner) => listfn(outer, &listfn(inner, xs)),
        _ => panic!("listfn: not a unary operator"),
    }
}

fn ival(v: &Val) -> i64 {
    match v {
        Val::I(x) => *x,
        _ => i64::MIN,
    }
}

/// C07: unary operators over a listenable source are incremental list functions.
pub fn c07(spec: &WorldSpec, ex: &Exec) -> Option<Viol> {
    let op = &spec.op;
    let mut sent: Vec<i64> = vec![];
    let mut got: Vec<i64> = vec![];
    let mut found = None;
    let mut probe_disposed = false;
    let mut probe_term = 0u32;
    let mut sub_stops = 0u32;
    // frames of Data sends: (start, ordinal of this datum, disposed at start, ..)
    let mut open: Vec<(usize, usize, bool, u32, u32)> = vec![];
    let mut self_ended = false;
    let take_n = if let Op::Take(n) = op { Some(*n) } else { None };
    walk(ex, |i, ev, stack, _| {
        if found.is_some() {
            return;
        }
        match ev {
            Ev::Send(Actor::Probe(_), m) if m.is_terminal() => probe_disposed = true,
            Ev::Send(Actor::Sub(_), M::Data(v)) => {
                sent.push(ival(v));
                open.push((i, sent.len(), probe_disposed, probe_term, sub_stops));
            },
            Ev::Send(Actor::Sub(_), m) if m.is_terminal() => self_ended = true,
            Ev::In(Actor::Sub(_), m) if m.is_terminal() => sub_stops += 1,
            Ev::In(Actor::Probe(_), M::Data(v)) => {
                got.push(ival(v));
                match innermost_puppet_send(stack) {
                    Some(fr) if fr.msg.is_data() => {},
                    _ => {
                        found = Some(viol(spec, "data-outside-upstream-delivery", i, format!("probe received {v:?} but no upstream Data delivery is in progress")));
                    },
                }
            },
            Ev::In(Actor::Probe(_), M::Term) => {
                probe_term += 1;
                let ok = match innermost_puppet_send(stack) {
                    Some(fr) if fr.msg == M::Term => true,
                    Some(fr) if fr.msg.is_data() => {
                        // take: inside the delivery of the n-th accepted item
                        let ordinal = open.iter().find(|o| o.0 == fr.start).map(|o| o.1).unwrap_or(0);
                        take_n.map(|n| ordinal == n).unwrap_or(false)
                    },
                    _ => false,
                };
                if !ok {
                    found = Some(viol(spec, "completion-at-wrong-time", i, format!("probe completed although upstream has not completed (sent so far {:?})", sent)));
                }
            },
            Ev::In(Actor::Probe(_), M::Err(_)) => {
                let ok = matches!(innermost_puppet_send(stack), Some(fr) if matches!(fr.msg, M::Err(_)));
                if !ok {
                    found = Some(viol(spec, "error-at-wrong-time", i, "probe received an Error outside of an upstream Error delivery".into()));
                }
            },
            Ev::Ret(Actor::Sub(_)) => {
                let Some(fr) = stack.last() else { return };
                match fr.msg {
                    M::Data(_) => {
                        let Some(pos) = open.iter().position(|o| o.0 == fr.start) else { return };
                        let (_, ordinal, disposed_before, term_before, stops_before) = open.remove(pos);
                        let _ = (term_before, stops_before);
                        // the probe's data equals listfn(sent so far)
                        let want = listfn(op, &sent);
                        if got != want {
                            found = Some(viol(spec, "not-the-list-function", i, format!("after upstream sent {:?} the probe has {:?}, expected {:?}", sent, got, want)));
                            return;
                        }
                        if let Some(n) = take_n {
                            // the delivery of the n-th item: sink completed, upstream disposed (unless the sink left)
                            // (a subject-like source may have ended by itself from inside this very
                            // delivery: then there is nothing left for take to complete or dispose)
                            if ordinal == n && !disposed_before && !self_ended {
                                let disposed_inside = probe_disposed;
                                if !disposed_inside && probe_term != 1 {
                                    found = Some(viol(spec, "take-did-not-complete-sink", i, format!("take({n}): the {n}-th item was delivered but the probe has {probe_term} Terminate")));
                                    return;
                                }
                                if sub_stops != 1 {
                                    found = Some(viol(spec, "take-did-not-dispose-upstream", i, format!("take({n}): after the {n}-th item upstream has received {sub_stops} stop messages")));
                                }
                            }
                        }
                    },
                    M::Term => {
                        if !probe_disposed && probe_term != 1 {
                            found = Some(viol(spec, "completion-not-relayed", i, format!("upstream completed but the probe has {probe_term} Terminate")));
                        }
                    },
                    _ => {},
                }
            },
            _ => {},
        }
    });
    if found.is_none() && ex.fault.is_none() && !ex.panicked {
        let want = listfn(op, &sent);
        if got != want {
            return Some(viol(spec, "not-the-list-function", ex.trace.len().saturating_sub(1), format!("upstream sent {:?}, probe has {:?}, expected {:?}", sent, got, want)));
        }
        // the user closure (map's f, filter's predicate, scan's reducer) is applied to each datum
        // exactly once, in order — the list function of a closure that remembers its calls depends on it
        let id = match op {
            Op::Map => Some(crate::worlds::CALL_MAP),
            Op::Filter(_) => Some(crate::worlds::CALL_FILTER),
            Op::Scan(_) => Some(crate::worlds::CALL_SCAN),
            _ => None,
        };
        if let Some(id) = id {
            let calls: Vec<i64> = ex.trace.iter().filter_map(|e| if let Ev::Call(i, x) = e { (*i == id).then_some(*x) } else { None }).collect();
            if calls != sent {
                let at = ex.trace.iter().rposition(|e| matches!(e, Ev::Call(..))).unwrap_or(0);
                return Some(viol(spec, "closure-not-applied-exactly-once-per-datum", at, format!("upstream sent {:?}, the operator's closure was applied to {:?}", sent, calls)));
            }
        }
    }
    found
}

struct SubInfo {
    greeted_at: Option<usize>,
    sent_term: bool,
    sent_err: bool,
    stopped: bool,
}

fn over(s: &SubInfo) -> bool {
    s.sent_term || s.sent_err || s.stopped
}

/// C08: merge! is the arrival-order union of its members.
pub fn c08(spec: &WorldSpec, ex: &Exec) -> Option<Viol> {
    let n = spec.op.arity();
    let mut subs: Vec<SubInfo> = (0..ex.subs.len()).map(|_| SubInfo { greeted_at: None, sent_term: false, sent_err: false, stopped: false }).collect();
    let mut p_over = false;
    let mut p_greeted = false;
    let mut p_term = 0u32;
    let mut sent_live: Vec<Val> = vec![];
    let mut got: Vec<Val> = vec![];
    let mut greetings = 0u32;
    // open probe Pull frames: (start, eligible subs, counts, output over during frame)
    struct PullFrame {
        start: usize,
        eligible: Vec<u16>,
        counts: std::collections::HashMap<u16, u32>,
        ended_inside: bool,
    }
    let mut pulls: Vec<PullFrame> = vec![];
    // open member Data sends made while live: (start, value)
    let mut data_open: Vec<(usize, Val, usize)> = vec![];
    let mut found = None;
    walk(ex, |i, ev, stack, _| {
        if found.is_some() {
            return;
        }
        match ev {
            Ev::Send(Actor::Probe(_), m) => {
                if m.is_terminal() {
                    p_over = true;
                    for pf in pulls.iter_mut() {
                        pf.ended_inside = true;
                    }
                } else if *m == M::Pull && !p_over {
                    let eligible: Vec<u16> = subs.iter().enumerate().filter(|(_, s)| s.greeted_at.is_some() && !over(s)).map(|(k, _)| k as u16).collect();
                    pulls.push(PullFrame { start: i, eligible, counts: Default::default(), ended_inside: false });
                }
            },
            Ev::Ret(Actor::Probe(_)) => {
                let Some(fr) = stack.last() else { return };
                if let Some(pos) = pulls.iter().position(|p| p.start == fr.start) {
                    let pf = pulls.remove(pos);
                    for s in &pf.eligible {
                        let c = pf.counts.get(s).copied().unwrap_or(0);
                        if c != 1 && !(c == 0 && (pf.ended_inside || over(&subs[*s as usize]))) {
                            found = Some(viol(spec, "pull-not-broadcast-exactly-once", i, format!("a sink Pull reached live member sub {s} {c} times")));
                            return;
                        }
                    }
                }
            },
            Ev::In(Actor::Probe(_), m) => match m {
                M::Hs => {
                    p_greeted = true;
                    let ok = matches!(innermost_send(stack), Some(fr) if fr.msg == M::Hs && matches!(fr.actor, Actor::Sub(_))) && greetings == 1;
                    if !ok {
                        found = Some(viol(spec, "sink-not-greeted-by-first-member-greeting", i, format!("the sink was greeted outside of the first member greeting (member greetings so far: {greetings})")));
                    }
                },
                M::Data(v) => {
                    got.push(*v);
                    let ok = matches!(innermost_puppet_send(stack), Some(fr) if fr.msg == M::Data(*v));
                    if !ok {
                        found = Some(viol(spec, "datum-not-delivered-during-its-own-delivery", i, format!("the sink received {v:?} outside of the member delivery of that datum")));
                    }
                },
                M::Term => {
                    p_term += 1;
                    p_over = true;
                    for pf in pulls.iter_mut() {
                        pf.ended_inside = true;
                    }
                    let all_done = subs.len() == n && subs.iter().all(|s| s.sent_term);
                    let inside = matches!(innermost_puppet_send(stack), Some(fr) if fr.msg == M::Term);
                    if !(all_done && inside) || p_term > 1 {
                        found = Some(viol(spec, "completion-at-wrong-time", i, format!("the sink was completed although not all {n} members have completed (or not inside the last completion)")));
                    }
                },
                M::Err(_) => {
                    p_over = true;
                    for pf in pulls.iter_mut() {
                        pf.ended_inside = true;
                    }
                },
                M::Pull => {},
            },
            Ev::Send(Actor::Sub(s), m) => {
                let su = *s as usize;
                match m {
                    M::Hs => {
                        greetings += 1;
                        subs[su].greeted_at = Some(i);
                    },
                    M::Data(v) => {
                        if !p_over {
                            sent_live.push(*v);
                            data_open.push((i, *v, got.len()));
                        }
                    },
                    M::Term => subs[su].sent_term = true,
                    M::Err(_) => subs[su].sent_err = true,
                    _ => {},
                }
            },
            Ev::Ret(Actor::Sub(s)) => {
                let Some(fr) = stack.last() else { return };
                let su = *s as usize;
                match fr.msg {
                    M::Hs => {
                        // (1) first greeting greets the sink; (5) greeting after the end is disposed at once
                        let first = subs.iter().filter(|x| x.greeted_at.is_some()).count() == 1;
                        if first && !p_greeted {
                            found = Some(viol(spec, "sink-not-greeted-by-first-member-greeting", i, "the first member greeting returned but the sink has not been greeted".into()));
                            return;
                        }
                        let was_over_at_greeting = {
                            // output over before this greeting began?
                            let mut o = false;
                            for e in ex.trace[..fr.start].iter() {
                                match e {
                                    Ev::Send(Actor::Probe(_), m) if m.is_terminal() => o = true,
                                    Ev::In(Actor::Probe(_), m) if m.is_terminal() => o = true,
                                    _ => {},
                                }
                            }
                            o
                        };
                        if was_over_at_greeting && !subs[su].stopped {
                            found = Some(viol(spec, "late-greeter-not-disposed", i, format!("member sub {s} greeted after the output was over and was not disposed inside its greeting")));
                        }
                    },
                    M::Data(_) => {
                        if let Some(pos) = data_open.iter().position(|d| d.0 == fr.start) {
                            let (_, v, _) = data_open.remove(pos);
                            let c = got.iter().filter(|x| **x == v).count();
                            if c != 1 {
                                found = Some(viol(spec, "datum-not-delivered-exactly-once", i, format!("member datum {v:?} was delivered {c} times by the time its delivery returned")));
                            }
                        }
                    },
                    M::Term => {
                        let all_done = subs.len() == n && subs.iter().all(|x| x.sent_term);
                        if all_done && p_term != 1 && !sink_left_before(ex, i) {
                            found = Some(viol(spec, "completion-not-delivered", i, format!("all {n} members have completed but the sink has {p_term} Terminate")));
                        }
                    },
                    _ => {},
                }
            },
            Ev::In(Actor::Sub(s), m) => {
                if m.is_terminal() {
                    subs[*s as usize].stopped = true;
                }
                if *m == M::Pull {
                    if let Some(fr) = innermost_send(stack) {
                        if let Some(pf) = pulls.iter_mut().find(|p| p.start == fr.start) {
                            *pf.counts.entry(*s).or_insert(0) += 1;
                            // a member that greeted while the broadcast was in progress may be included
                            let live_now = subs[*s as usize].greeted_at.is_some() && !subs[*s as usize].sent_term && !subs[*s as usize].sent_err;
                            // never to a member that has completed (even if it completed while this very
                            // broadcast was in progress), and never to one that has not greeted
                            if !live_now {
                                found = Some(viol(spec, "pull-sent-to-member-not-live", i, format!("a sink Pull was relayed to member sub {s}, which had not greeted or had completed")));
                            }
                        }
                    }
                }
            },
            _ => {},
        }
    });
    if found.is_none() && got != sent_live && ex.fault.is_none() && !ex.panicked {
        return Some(viol(spec, "not-arrival-order-union", ex.trace.len().saturating_sub(1), format!("members sent {:?} while live, the sink received {:?}", sent_live, got)));
    }
    found
}

fn sink_left_before(ex: &Exec, at: usize) -> bool {
    ex.trace[..at].iter().any(|e| match e {
        Ev::Send(Actor::Probe(_), m) if m.is_terminal() => true,
        Ev::In(Actor::Probe(_), M::Err(_)) => true,
        _ => false,
    })
}

/// C09: concat! runs members strictly one after another and carries demand across.
pub fn c09(spec: &WorldSpec, ex: &Exec) -> Option<Viol> {
    let n = spec.op.arity();
    let mut p_over = false;
    let mut p_term = 0u32;
    let mut p_pulls = 0u32;
    let mut p_data = 0u32;
    let mut sent_live: Vec<Val> = vec![];
    let mut got: Vec<Val> = vec![];
    let mut subscribed: Vec<Option<u16>> = vec![None; n.max(1)];
    // greeting frames: (start, sub, outstanding pull at start, pulls received inside)
    let mut greet_open: Vec<(usize, u16, bool, u32)> = vec![];
    let mut found = None;
    walk(ex, |i, ev, stack, top| {
        if found.is_some() {
            return;
        }
        match ev {
            Ev::Send(Actor::Probe(_), m) => {
                if m.is_terminal() {
                    p_over = true;
                } else if *m == M::Pull {
                    p_pulls += 1;
                }
            },
            Ev::In(Actor::Probe(_), m) => match m {
                M::Data(v) => {
                    got.push(*v);
                    p_data += 1;
                },
                M::Term => {
                    p_term += 1;
                    p_over = true;
                    let last_done = n == 0 || matches!(innermost_puppet_send(stack), Some(fr) if fr.msg == M::Term && matches!(fr.actor, Actor::Sub(s) if ex.subs[s as usize].puppet as usize == n - 1));
                    if !last_done || p_term > 1 {
                        found = Some(viol(spec, "completion-at-wrong-time", i, "the sink was completed outside of the last member's completion".into()));
                    }
                },
                M::Err(_) => p_over = true,
                _ => {},
            },
            Ev::In(Actor::Sub(s), M::Hs) => {
                let j = ex.subs[*s as usize].puppet as usize;
                if p_over {
                    found = Some(viol(spec, "member-subscribed-after-output-over", i, format!("member {j} was subscribed after an error or a disposal")));
                    return;
                }
                if j < subscribed.len() {
                    subscribed[j] = Some(*s);
                }
                if j == 0 {
                    if !matches!(top, Some(EvId::Subscribe(_))) || stack.iter().any(|f| f.is_send) {
                        found = Some(viol(spec, "member-subscribed-at-wrong-time", i, "member 0 was subscribed outside of the sink's subscription".into()));
                    }
                } else {
                    let ok = matches!(innermost_puppet_send(stack), Some(fr) if fr.msg == M::Term && matches!(fr.actor, Actor::Sub(ps) if ex.subs[ps as usize].puppet as usize == j - 1));
                    if !ok {
                        found = Some(viol(spec, "member-subscribed-at-wrong-time", i, format!("member {j} was subscribed although member {} has not just completed", j - 1)));
                    }
                }
            },
            Ev::Send(Actor::Sub(s), m) => match m {
                M::Data(v) => {
                    if !p_over {
                        sent_live.push(*v);
                    }
                },
                M::Hs => {
                    greet_open.push((i, *s, p_pulls > p_data && !p_over, 0));
                },
                _ => {},
            },
            Ev::In(Actor::Sub(s), M::Pull) => {
                if let Some(fr) = innermost_send(stack) {
                    if let Some(g) = greet_open.iter_mut().find(|g| g.0 == fr.start && g.1 == *s) {
                        g.3 += 1;
                    }
                }
            },
            Ev::Ret(Actor::Sub(s)) => {
                let Some(fr) = stack.last() else { return };
                let j = ex.subs[*s as usize].puppet as usize;
                match fr.msg {
                    M::Hs => {
                        if let Some(pos) = greet_open.iter().position(|g| g.0 == fr.start) {
                            let (_, _, outstanding, pulls_inside) = greet_open.remove(pos);
                            if j >= 1 && outstanding && pulls_inside == 0 {
                                found = Some(viol(spec, "outstanding-pull-not-reissued", i, format!("the sink had an unanswered Pull when member {j} greeted, but member {j} was not pulled inside its greeting")));
                            }
                        }
                    },
                    M::Term => {
                        let left = sink_left_before(ex, fr.start);
                        if !left {
                            if j + 1 < n {
                                if subscribed[j + 1].is_none() && !p_over {
                                    found = Some(viol(spec, "next-member-not-subscribed", i, format!("member {j} completed but member {} was not subscribed", j + 1)));
                                }
                            } else if p_term != 1 && !sink_left_before(ex, i) {
                                found = Some(viol(spec, "completion-not-delivered", i, "the last member completed but the sink was not completed".into()));
                            }
                        }
                    },
                    _ => {},
                }
            },
            _ => {},
        }
    });
    if found.is_none() && ex.fault.is_none() && !ex.panicked {
        if got != sent_live {
            return Some(viol(spec, "not-the-concatenation", ex.trace.len().saturating_sub(1), format!("members sent {:?} while live, the sink received {:?}", sent_live, got)));
        }
        let tags: Vec<i64> = got.iter().map(|v| ival(v) / 10).collect();
        if tags.windows(2).any(|w| w[0] > w[1]) {
            return Some(viol(spec, "member-order-violated", ex.trace.len().saturating_sub(1), format!("the sink received {:?}", got)));
        }
    }
    found
}

/// C10: combine! emits the latest value of every member, none before all have one.
pub fn c10(spec: &WorldSpec, ex: &Exec) -> Option<Viol> {
    let n = spec.op.arity();
    let mut latest: Vec<Option<i64>> = vec![None; n];
    let mut p_over = false;
    let mut p_greeted = false;
    let mut p_term = 0u32;
    let mut greetings = 0usize;
    let mut ended = vec![false; n];
    let mut sub_stopped: Vec<bool> = vec![false; ex.subs.len()];
    let mut sub_self_ended: Vec<bool> = vec![false; ex.subs.len()];
    // open data frames: (start, expected tuple, tuples seen inside directly)
    let mut data_open: Vec<(usize, Option<Val>, Vec<Val>)> = vec![];
    struct PullFrame {
        start: usize,
        eligible: Vec<u16>,
        counts: std::collections::HashMap<u16, u32>,
        ended_inside: bool,
    }
    let mut pulls: Vec<PullFrame> = vec![];
    let mut found = None;
    walk(ex, |i, ev, stack, _| {
        if found.is_some() {
            return;
        }
        match ev {
            Ev::Send(Actor::Probe(_), m) => {
                if m.is_terminal() {
                    p_over = true;
                    for pf in pulls.iter_mut() {
                        pf.ended_inside = true;
                    }
                } else if *m == M::Pull && !p_over {
                    let eligible: Vec<u16> = (0..ex.subs.len()).filter(|s| !sub_stopped[*s] && !sub_self_ended[*s]).map(|s| s as u16).collect();
                    pulls.push(PullFrame { start: i, eligible, counts: Default::default(), ended_inside: false });
                }
            },
            Ev::Ret(Actor::Probe(_)) => {
                let Some(fr) = stack.last() else { return };
                if let Some(pos) = pulls.iter().position(|p| p.start == fr.start) {
                    let pf = pulls.remove(pos);
                    for s in &pf.eligible {
                        let c = pf.counts.get(s).copied().unwrap_or(0);
                        if c != 1 && !(c == 0 && (pf.ended_inside || sub_stopped[*s as usize] || sub_self_ended[*s as usize])) {
                            found = Some(viol(spec, "pull-not-broadcast-exactly-once", i, format!("a sink Pull reached running member sub {s} {c} times")));
                            return;
                        }
                    }
                }
            },
            Ev::In(Actor::Sub(s), m) => {
                if m.is_terminal() {
                    sub_stopped[*s as usize] = true;
                }
                if *m == M::Pull {
                    if sub_self_ended[*s as usize] {
                        found = Some(viol(spec, "pull-sent-to-member-not-running", i, format!("a Pull was relayed to member sub {s}, which has already ended")));
                        return;
                    }
                    if let Some(fr) = innermost_send(stack) {
                        if let Some(pf) = pulls.iter_mut().find(|p| p.start == fr.start) {
                            *pf.counts.entry(*s).or_insert(0) += 1;
                        }
                    }
                }
            },
            Ev::In(Actor::Probe(_), m) => match m {
                M::Hs => {
                    p_greeted = true;
                    let ok = greetings == n && matches!(innermost_send(stack), Some(fr) if fr.msg == M::Hs && matches!(fr.actor, Actor::Sub(_)));
                    // a member failing before all have greeted: the sink is greeted so that it can be failed
                    let failing = matches!(innermost_send(stack), Some(fr) if matches!(fr.msg, M::Err(_)) && matches!(fr.actor, Actor::Sub(_)));
                    if !ok && !failing {
                        found = Some(viol(spec, "sink-greeted-before-all-members", i, format!("the sink was greeted after {greetings} of {n} member greetings")));
                    }
                },
                M::Data(v) => {
                    match innermost_puppet_send(stack) {
                        Some(fr) if fr.msg.is_data() => {
                            if let Some(d) = data_open.iter_mut().find(|d| d.0 == fr.start) {
                                d.2.push(*v);
                                if d.1 != Some(*v) {
                                    found = Some(viol(spec, "wrong-tuple", i, format!("the sink received {v:?}, expected {:?} (latest values {:?})", d.1, latest)));
                                }
                            }
                        },
                        _ => {
                            found = Some(viol(spec, "tuple-outside-member-delivery", i, format!("the sink received {v:?} while no member datum was being delivered")));
                        },
                    }
                },
                M::Term => {
                    p_term += 1;
                    p_over = true;
                    for pf in pulls.iter_mut() {
                        pf.ended_inside = true;
                    }
                    let all = ended.iter().all(|e| *e);
                    let inside = matches!(innermost_puppet_send(stack), Some(fr) if fr.msg == M::Term);
                    if !(all && inside) || p_term > 1 {
                        found = Some(viol(spec, "completion-at-wrong-time", i, format!("the sink was completed although members ended = {:?}", ended)));
                    }
                },
                M::Err(_) => {
                    p_over = true;
                    for pf in pulls.iter_mut() {
                        pf.ended_inside = true;
                    }
                },
                _ => {},
            },
            Ev::Send(Actor::Sub(s), m) => {
                let j = ex.subs[*s as usize].puppet as usize;
                match m {
                    M::Hs => greetings += 1,
                    M::Data(v) => {
                        if !p_over && j < n {
                            latest[j] = Some(ival(v));
                            let exp = if latest.iter().all(|x| x.is_some()) {
                                let mut a = [0i64; 3];
                                for (k, x) in latest.iter().enumerate() {
                                    a[k] = x.unwrap();
                                }
                                Some(Val::T(n as u8, a))
                            } else {
                                None
                            };
                            data_open.push((i, exp, vec![]));
                        }
                    },
                    M::Term => {
                        sub_self_ended[*s as usize] = true;
                        if j < n {
                            ended[j] = true;
                        }
                    },
                    M::Err(_) => sub_self_ended[*s as usize] = true,
                    _ => {},
                }
            },
            Ev::Ret(Actor::Sub(_)) => {
                let Some(fr) = stack.last() else { return };
                match fr.msg {
                    M::Hs => {
                        if greetings == n && !p_greeted && !p_over {
                            found = Some(viol(spec, "sink-not-greeted-after-all-members", i, "all members have greeted but the sink has not been greeted".into()));
                        }
                    },
                    M::Data(_) => {
                        if let Some(pos) = data_open.iter().position(|d| d.0 == fr.start) {
                            let (_, exp, seen) = data_open.remove(pos);
                            match exp {
                                Some(t) => {
                                    if seen.len() != 1 {
                                        found = Some(viol(spec, "not-exactly-one-tuple-per-datum", i, format!("a member datum produced {} tuples, expected exactly {t:?}", seen.len())));
                                    }
                                },
                                None => {
                                    if !seen.is_empty() {
                                        found = Some(viol(spec, "emission-before-all-members-have-a-value", i, format!("tuples {seen:?} were emitted although latest = {latest:?}")));
                                    }
                                },
                            }
                        }
                    },
                    M::Term => {
                        if ended.iter().all(|e| *e) && p_term != 1 && !sink_left_before(ex, i) && p_greeted {
                            found = Some(viol(spec, "completion-not-delivered", i, "all members have ended but the sink was not completed".into()));
                        }
                    },
                    _ => {},
                }
            },
            _ => {},
        }
    });
    found
}

/// C11: flatten has switch semantics.
pub fn c11(spec: &WorldSpec, ex: &Exec) -> Option<Viol> {
    let ns = ex.subs.len();
    let is_outer = |s: u16| ex.subs[s as usize].puppet == 0;
    let mut alive = vec![false; ns]; // greeted, not ended, not stopped
    let mut stops = vec![0u32; ns];
    let mut outer_done = false;
    let mut outer_sub: Option<u16> = None;
    let mut latest_inner: Option<u16> = None;
    let mut p_over = false;
    let mut p_term = 0u32;
    // outer data frames: (start, inner puppet id, inner subs created directly)
    let mut emit_open: Vec<(usize, u8, Vec<u16>)> = vec![];
    // inner greeting frames: (start, sub, direct pulls)
    let mut greet_open: Vec<(usize, u16, u32)> = vec![];
    // probe pull frames: (start, expected recipient, recipients)
    let mut pull_open: Vec<(usize, Option<u16>, Vec<u16>, bool)> = vec![];
    let mut found = None;
    walk(ex, |i, ev, stack, _| {
        if found.is_some() {
            return;
        }
        let active_inner = |alive: &Vec<bool>| -> Option<u16> { (0..ns as u16).rev().find(|s| !is_outer(*s) && alive[*s as usize]) };
        match ev {
            Ev::Send(Actor::Probe(_), m) => {
                if m.is_terminal() {
                    p_over = true;
                    for p in pull_open.iter_mut() {
                        p.3 = true;
                    }
                } else if *m == M::Pull && !p_over {
                    let exp = match active_inner(&alive) {
                        Some(s) => Some(s),
                        None => outer_sub.filter(|s| alive[*s as usize]),
                    };
                    pull_open.push((i, exp, vec![], false));
                }
            },
            Ev::Ret(Actor::Probe(_)) => {
                let Some(fr) = stack.last() else { return };
                if let Some(pos) = pull_open.iter().position(|p| p.0 == fr.start) {
                    let (_, exp, rec, _) = pull_open.remove(pos);
                    let want: Vec<u16> = exp.into_iter().collect();
                    if rec != want {
                        found = Some(viol(spec, "pull-misrouted", i, format!("a sink Pull was received by subs {rec:?}, expected {want:?} (active inner if any, else the outer)")));
                    }
                }
            },
            Ev::In(Actor::Sub(s), m) => {
                let su = *s as usize;
                match m {
                    M::Hs => {
                        if is_outer(*s) {
                            outer_sub = Some(*s);
                        } else {
                            // new inner subscription: must be directly inside an outer emission of that puppet
                            match innermost_puppet_send(stack) {
                                Some(fr) if matches!(fr.msg, M::Data(Val::Src(j)) if j == ex.subs[su].puppet) => {
                                    if let Some(e) = emit_open.iter_mut().find(|e| e.0 == fr.start) {
                                        e.2.push(*s);
                                    }
                                },
                                _ => {
                                    found = Some(viol(spec, "inner-subscribed-outside-its-emission", i, format!("inner sub {s} was subscribed outside of the outer delivery that emitted it")));
                                    return;
                                },
                            }
                            // the previously active inner must have been disposed exactly once by now
                            if let Some(prev) = active_inner(&alive) {
                                found = Some(viol(spec, "previous-inner-not-disposed", i, format!("inner sub {s} is being subscribed while inner sub {prev} is still active (stops received: {})", stops[prev as usize])));
                                return;
                            }
                            latest_inner = Some(*s);
                        }
                    },
                    M::Pull => {
                        if let Some(fr) = innermost_send(stack) {
                            if let Some(g) = greet_open.iter_mut().find(|g| g.0 == fr.start && g.1 == *s) {
                                g.2 += 1;
                            }
                            if let Some(p) = pull_open.iter_mut().find(|p| p.0 == fr.start) {
                                p.2.push(*s);
                            }
                        }
                    },
                    M::Term | M::Err(_) => {
                        stops[su] += 1;
                        alive[su] = false;
                    },
                    _ => {},
                }
            },
            Ev::Send(Actor::Sub(s), m) => {
                let su = *s as usize;
                match m {
                    M::Hs => {
                        alive[su] = true;
                        if !is_outer(*s) {
                            greet_open.push((i, *s, 0));
                        }
                    },
                    M::Data(Val::Src(j)) => {
                        if !p_over {
                            emit_open.push((i, *j, vec![]));
                        }
                    },
                    M::Term => {
                        alive[su] = false;
                        if is_outer(*s) {
                            outer_done = true;
                        }
                    },
                    M::Err(_) => alive[su] = false,
                    _ => {},
                }
            },
            Ev::Ret(Actor::Sub(s)) => {
                let Some(fr) = stack.last() else { return };
                match fr.msg {
                    M::Hs => {
                        if let Some(pos) = greet_open.iter().position(|g| g.0 == fr.start) {
                            let (_, gs, direct) = greet_open.remove(pos);
                            if direct != 1 {
                                found = Some(viol(spec, "inner-not-pulled-once-on-greeting", i, format!("inner sub {gs} received {direct} Pulls from flatten inside its greeting, expected exactly 1")));
                            }
                        }
                    },
                    M::Data(Val::Src(j)) => {
                        if let Some(pos) = emit_open.iter().position(|e| e.0 == fr.start) {
                            let (_, _, created) = emit_open.remove(pos);
                            if created.len() != 1 {
                                found = Some(viol(spec, "inner-not-subscribed-exactly-once", i, format!("the outer emitted inner puppet {j}; it was subscribed {} times inside that delivery", created.len())));
                            }
                        }
                    },
                    M::Term => {
                        let cond = outer_done && active_inner(&alive).is_none();
                        let _ = s;
                        if cond && p_term != 1 && !sink_left_before(ex, i) {
                            found = Some(viol(spec, "completion-not-delivered", i, "the outer has completed and no inner is active, but the sink was not completed".into()));
                        }
                    },
                    _ => {},
                }
            },
            Ev::In(Actor::Probe(_), m) => match m {
                M::Data(v) => {
                    // must come from the newest inner subscription
                    let from = match innermost_puppet_send(stack) {
                        Some(fr) if fr.msg == M::Data(*v) => match fr.actor {
                            Actor::Sub(s) => Some(s),
                            _ => None,
                        },
                        _ => None,
                    };
                    if from.is_none() || from != latest_inner {
                        found = Some(viol(spec, "datum-not-from-latest-inner", i, format!("the sink received {v:?} from sub {from:?} but the latest inner is sub {latest_inner:?}")));
                    }
                },
                M::Term => {
                    p_term += 1;
                    p_over = true;
                    for p in pull_open.iter_mut() {
                        p.3 = true;
                    }
                    let cond = outer_done && active_inner(&alive).is_none();
                    let inside = matches!(innermost_puppet_send(stack), Some(fr) if fr.msg == M::Term);
                    if !(cond && inside) || p_term > 1 {
                        found = Some(viol(spec, "completion-at-wrong-time", i, format!("the sink was completed (outer completed: {outer_done}, active inner: {:?})", active_inner(&alive))));
                    }
                },
                M::Err(_) => {
                    p_over = true;
                },
                _ => {},
            },
            _ => {},
        }
    });
    found
}

/// C12: share keeps one reference-counted upstream subscription.
pub fn c12(spec: &WorldSpec, ex: &Exec) -> Option<Viol> {
    let np = ex.probes.len();
    let ns = ex.subs.len();
    let mut attached = vec![false; np];
    let mut disposed_at: Vec<Option<usize>> = vec![None; np];
    let mut sub_alive = vec![false; ns]; // subscribed (even before greeting) and not over
    let mut found = None;
    // open attach frames: (frame start or usize::MAX for the top-level one, probe, attached-empty at
    // start, new subs inside)
    let mut attach: Vec<(usize, u8, bool, u32)> = vec![];
    // open source sends: (start, msg, attached snapshot, received)
    let mut send_open: Vec<(usize, M, Vec<u8>, Vec<u8>)> = vec![];
    // open detach frames: (start, probe, expect upstream stop, stops inside)
    let mut detach_open: Vec<(usize, u8, bool, u32)> = vec![];
    walk(ex, |i, ev, stack, _| {
        if found.is_some() {
            return;
        }
        match ev {
            Ev::Top(e) => {
                // close the previous top-level attach frame
                while let Some((_, p, empty, newsubs)) = attach.pop() {
                    if let Some(v) = check_attach(spec, i, p, empty, newsubs) {
                        found = Some(v);
                        return;
                    }
                }
                if let EvId::Subscribe(p) = e {
                    let empty = !attached.iter().any(|a| *a);
                    attach.push((usize::MAX, *p, empty, 0));
                }
            },
            // a sink attaching from inside a handler (nested subscription)
            Ev::Send(Actor::Probe(q), M::Hs) => {
                let empty = !attached.iter().any(|a| *a);
                attach.push((i, *q, empty, 0));
            },
            Ev::In(Actor::Sub(s), m) => {
                let su = *s as usize;
                match m {
                    M::Hs => {
                        if sub_alive.iter().any(|a| *a) {
                            found = Some(viol(spec, "two-live-upstream-subscriptions", i, "a second upstream subscription was started while one is alive".into()));
                            return;
                        }
                        sub_alive[su] = true;
                        // directly inside the innermost attach (top-level: empty stack; nested: the
                        // innermost send frame is that attach)
                        let inner = innermost_send(stack).map(|f| f.start);
                        let ok = match (attach.last_mut(), inner) {
                            (Some(a), None) if a.0 == usize::MAX => {
                                a.3 += 1;
                                true
                            },
                            (Some(a), Some(st)) if a.0 == st => {
                                a.3 += 1;
                                true
                            },
                            _ => false,
                        };
                        if !ok {
                            found = Some(viol(spec, "upstream-subscribed-outside-attach", i, "upstream was subscribed outside of a sink attaching".into()));
                        }
                    },
                    M::Term | M::Err(_) => {
                        sub_alive[su] = false;
                        match innermost_send(stack) {
                            Some(fr) => {
                                if let Some(d) = detach_open.iter_mut().find(|d| d.0 == fr.start) {
                                    d.3 += 1;
                                } else {
                                    found = Some(viol(spec, "upstream-disposed-outside-detach", i, "upstream was disposed outside of a sink detaching".into()));
                                }
                            },
                            None => {
                                found = Some(viol(spec, "upstream-disposed-outside-detach", i, "upstream was disposed outside of a sink detaching".into()));
                            },
                        }
                    },
                    _ => {},
                }
            },
            Ev::In(Actor::Probe(p), m) => {
                let pu = *p as usize;
                match m {
                    M::Hs => attached[pu] = true,
                    M::Data(_) | M::Term | M::Err(_) => {
                        // the fan-out goes to the sinks attached at the moment of each delivery: a sink
                        // that detached (even from inside this very fan-out) is not one of them
                        if let Some(d) = disposed_at[pu] {
                            found = Some(viol(spec, "delivery-to-detached-sink", i, format!("probe {p} detached at #{d}, yet it was delivered {m:?}")));
                            return;
                        }
                        match innermost_puppet_send(stack) {
                            Some(fr) if fr.msg == *m => {
                                if let Some(so) = send_open.iter_mut().find(|x| x.0 == fr.start) {
                                    so.3.push(*p);
                                }
                            },
                            _ => {
                                found = Some(viol(spec, "delivery-outside-source-emission", i, format!("probe {p} received {m:?} outside of the source's delivery of it")));
                                return;
                            }
                        }
                        if m.is_terminal() {
                            attached[pu] = false;
                        }
                    },
                    _ => {},
                }
            },
            Ev::Send(Actor::Probe(p), m) if m.is_terminal() => {
                let pu = *p as usize;
                let was = attached[pu];
                attached[pu] = false;
                disposed_at[pu] = Some(i);
                let empties = was && !attached.iter().any(|a| *a);
                let upstream_alive = sub_alive.iter().any(|a| *a);
                detach_open.push((i, *p, empties && upstream_alive, 0));
            },
            Ev::Ret(Actor::Probe(_)) => {
                let Some(fr) = stack.last() else { return };
                if let Some(pos) = detach_open.iter().position(|d| d.0 == fr.start) {
                    let (_, p, expect, got) = detach_open.remove(pos);
                    if expect && got != 1 {
                        found = Some(viol(spec, "upstream-not-disposed-by-last-detach", i, format!("probe {p} was the last attached sink; upstream received {got} stop messages inside its detach")));
                    } else if !expect && got != 0 {
                        found = Some(viol(spec, "upstream-disposed-while-sinks-attached", i, format!("probe {p} detached while other sinks were attached (or upstream was gone), yet upstream received {got} stop messages")));
                    }
                } else if let Some(pos) = attach.iter().position(|a| a.0 == fr.start) {
                    let (_, p, empty, newsubs) = attach.remove(pos);
                    if let Some(v) = check_attach(spec, i, p, empty, newsubs) {
                        found = Some(v);
                    }
                }
            },
            Ev::Send(Actor::Sub(s), m) => {
                let su = *s as usize;
                if m.is_terminal() {
                    sub_alive[su] = false;
                }
                if m.is_data() || m.is_terminal() {
                    let snap: Vec<u8> = (0..np as u8).filter(|p| attached[*p as usize]).collect();
                    if m.is_terminal() {
                        // the subscription is over: every sink attached to it is on its way out, a sink
                        // attaching from now on (even from inside this last fan-out) starts afresh
                        for p in &snap {
                            attached[*p as usize] = false;
                        }
                    }
                    send_open.push((i, *m, snap, vec![]));
                }
            },
            Ev::Ret(Actor::Sub(_)) => {
                let Some(fr) = stack.last() else { return };
                if let Some(pos) = send_open.iter().position(|x| x.0 == fr.start) {
                    let (start, m, snap, mut got) = send_open.remove(pos);
                    got.sort();
                    // every sink attached when the delivery began receives it exactly once, except
                    // one that detached (was disposed) while the fan-out was in progress
                    let extra: Vec<&u8> = got.iter().filter(|p| !snap.contains(p)).collect();
                    let dup = got.windows(2).any(|w| w[0] == w[1]);
                    let missing: Vec<&u8> = snap
                        .iter()
                        .filter(|p| !got.contains(p) && !disposed_at[**p as usize].map(|d| d > start).unwrap_or(false))
                        .collect();
                    if !extra.is_empty() || dup || !missing.is_empty() {
                        found = Some(viol(spec, "fan-out-not-exactly-once", i, format!("the source sent {m:?} while probes {snap:?} were attached; it was delivered to {got:?}")));
                    }
                }
            },
            _ => {},
        }
    });
    if found.is_none() && ex.fault.is_none() && !ex.panicked {
        while let Some((_, p, empty, newsubs)) = attach.pop() {
            if found.is_none() {
                found = check_attach(spec, ex.trace.len(), p, empty, newsubs);
            }
        }
    }
    found
}

fn check_attach(spec: &WorldSpec, at: usize, p: u8, empty: bool, newsubs: u32) -> Option<Viol> {
    if empty && newsubs != 1 {
        return Some(viol(spec, "no-fresh-upstream-subscription", at.saturating_sub(1), format!("probe {p} attached while no sink was attached; {newsubs} upstream subscriptions were started")));
    }
    if !empty && newsubs != 0 {
        return Some(viol(spec, "extra-upstream-subscription", at.saturating_sub(1), format!("probe {p} attached while sinks were attached; {newsubs} upstream subscriptions were started")));
    }
    None
}

/// C14: demand conservation over pullable upstreams.
pub fn c14(spec: &WorldSpec, ex: &Exec) -> Option<Viol> {
    let mut pulls = 0u32;
    let mut data = 0u32;
    let mut over = false;
    let q = quiescent_points(ex);
    let mut qi = 0;
    let mut pending: Vec<u32> = vec![0; ex.subs.len()];
    let mut found = None;
    for (i, ev) in ex.trace.iter().enumerate() {
        while qi < q.len() && q[qi] <= i {
            if q[qi] == i && !over && pending.iter().all(|p| *p == 0) && data != pulls {
                found = Some(viol(spec, "pull-not-answered", i.saturating_sub(1), format!("at quiescence the sink has sent {pulls} Pulls and received {data} Data, no upstream answer is pending")));
            }
            qi += 1;
        }
        if found.is_some() {
            break;
        }
        match ev {
            Ev::Defer(s) => pending[*s as usize] += 1,
            Ev::Top(EvId::SubAnsData(s)) | Ev::Top(EvId::SubAnsTerm(s)) | Ev::Top(EvId::SubAnsErr(s)) => {
                pending[*s as usize] = pending[*s as usize].saturating_sub(1)
            },
            // a stopped or ended source owes nothing any more
            Ev::In(Actor::Sub(s), m) if m.is_terminal() => pending[*s as usize] = 0,
            Ev::Send(Actor::Sub(s), m) if m.is_terminal() => pending[*s as usize] = 0,
            Ev::Send(Actor::Probe(_), M::Pull) => pulls += 1,
            Ev::Send(Actor::Probe(_), m) if m.is_terminal() => over = true,
            Ev::In(Actor::Probe(_), M::Data(_)) => {
                data += 1;
                if data > pulls {
                    found = Some(viol(spec, "more-data-than-pulls", i, format!("the sink has received {data} Data but sent only {pulls} Pulls")));
                }
            },
            Ev::In(Actor::Probe(_), m) if m.is_terminal() => over = true,
            _ => {},
        }
    }
    if found.is_none() && q.last() == Some(&ex.trace.len()) && !over && pending.iter().all(|p| *p == 0) && data != pulls {
        found = Some(viol(spec, "pull-not-answered", ex.trace.len().saturating_sub(1), format!("at quiescence the sink has sent {pulls} Pulls and received {data} Data, no upstream answer is pending")));
    }
    found
}

/// C15: from_iter is lazy, ordered, one item per Pull, never re-entrant.
pub fn c15(spec: &WorldSpec, ex: &Exec) -> Option<Viol> {
    let (xs, unbounded): (Vec<i64>, bool) = match &spec.op {
        Op::FromIter(xs) => (xs.clone(), false),
        Op::FromIterUnbounded => ((1..=200).collect(), true),
        _ => panic!("c15 on a non-from_iter world"),
    };
    let _ = unbounded;
    let mut pulls = 0usize;
    let mut data: Vec<i64> = vec![];
    let mut terms = 0usize;
    let mut calls = 0usize;
    let mut disposed = false;
    let mut found = None;
    let q = quiescent_points(ex);
    let mut qi = 0;
    walk(ex, |i, ev, stack, _| {
        if found.is_some() {
            return;
        }
        while qi < q.len() && q[qi] <= i {
            if q[qi] == i {
                if let Some(v) = c15_quiescent(spec, i, &xs, pulls, &data, terms, calls, disposed) {
                    found = Some(v);
                    return;
                }
            }
            qi += 1;
        }
        match ev {
            Ev::Send(Actor::Probe(_), M::Pull) => pulls += 1,
            Ev::Send(Actor::Probe(_), m) if m.is_terminal() => disposed = true,
            Ev::Call(CALL_NEXT, _) => {
                calls += 1;
                if disposed {
                    found = Some(viol(spec, "iterator-advanced-after-disposal", i, "next() was called after the sink disposed".into()));
                    return;
                }
                if calls > pulls {
                    found = Some(viol(spec, "iterator-advanced-without-pull", i, format!("{calls} next() calls but only {pulls} Pulls")));
                }
            },
            Ev::In(Actor::Probe(_), m) => {
                if disposed {
                    found = Some(viol(spec, "delivery-after-disposal", i, format!("{m:?} was delivered after the sink disposed")));
                    return;
                }
                // emission deliveries (Data / Terminate) never nest; the greeting is not an emission, so
                // a sink pulling from inside its handshake handler is served inside that call (depth 2,
                // independent of the number of items)
                if stack.iter().any(|f| !f.is_send && matches!(f.actor, Actor::Probe(_)) && f.msg != M::Hs) {
                    found = Some(viol(spec, "re-entrant-delivery", i, format!("delivery of {m:?} began while an earlier delivery to the same sink was in progress")));
                    return;
                }
                match m {
                    M::Data(v) => {
                        data.push(ival(v));
                        if data.len() > xs.len() || data[..] != xs[..data.len()] {
                            found = Some(viol(spec, "not-a-prefix-in-order", i, format!("received {:?}, iterator yields {:?}", data, &xs[..xs.len().min(4)])));
                        }
                    },
                    M::Term => {
                        terms += 1;
                        if terms > 1 || data.len() != xs.len() {
                            found = Some(viol(spec, "completion-at-wrong-time", i, format!("Terminate #{terms} after {} of {} items", data.len(), xs.len())));
                        }
                    },
                    _ => {},
                }
            },
            _ => {},
        }
    });
    if found.is_none() && q.last() == Some(&ex.trace.len()) {
        found = c15_quiescent(spec, ex.trace.len(), &xs, pulls, &data, terms, calls, disposed);
    }
    found
}

#[allow(clippy::too_many_arguments)]
fn c15_quiescent(spec: &WorldSpec, at: usize, xs: &[i64], pulls: usize, data: &[i64], terms: usize, calls: usize, disposed: bool) -> Option<Viol> {
    if calls != data.len() + terms {
        return Some(viol(spec, "iterator-calls-mismatch", at.saturating_sub(1), format!("{calls} next() calls for {} items and {terms} completion", data.len())));
    }
    if !disposed {
        let want_data = pulls.min(xs.len());
        let want_term = usize::from(pulls > xs.len());
        if data.len() != want_data || terms != want_term {
            return Some(viol(spec, "not-one-item-per-pull", at.saturating_sub(1), format!("after {pulls} Pulls on {} items: {} Data and {terms} Terminate, expected {want_data} and {want_term}", xs.len().min(99), data.len())));
        }
    }
    None
}

/// C16: interval ticks 0,1,2,... once per period per subscription and is silent after disposal.
pub fn c16(spec: &WorldSpec, ex: &Exec) -> Option<Viol> {
    let period = match &spec.op {
        Op::Interval(ms) => *ms,
        _ => panic!("c16 on a non-interval world"),
    };
    let np = ex.probes.len();
    let mut task_owner: Vec<Option<u8>> = vec![];
    let mut refused: Vec<Option<bool>> = vec![None; np]; // Some(kind ok?) when spawn refused
    let mut next_val = vec![0i64; np];
    let mut disposed = vec![false; np];
    let mut greeted = vec![false; np];
    let mut errs = vec![0u32; np];
    let mut cur_top: Option<EvId> = None;
    let mut delivered_in_top = vec![0u32; np];
    let mut disposed_at_top_start = vec![false; np];
    let mut found = None;
    let check_top_end = |at: usize, cur_top: Option<EvId>, task_owner: &Vec<Option<u8>>, delivered: &Vec<u32>, disposed_start: &Vec<bool>| -> Option<Viol> {
        match cur_top {
            Some(EvId::Fire(t)) => {
                let owner = task_owner.get(t as usize).copied().flatten()?;
                let o = owner as usize;
                let want = if disposed_start[o] { 0 } else { 1 };
                if delivered[o] != want {
                    return Some(viol(spec, "not-one-tick-per-period", at.saturating_sub(1), format!("a period elapsed for the task of probe {owner} (disposed before: {}); it received {} numbers", disposed_start[o], delivered[o])));
                }
                None
            },
            _ => None,
        }
    };
    for (i, ev) in ex.trace.iter().enumerate() {
        match ev {
            Ev::Top(e) => {
                if let Some(v) = check_top_end(i, cur_top, &task_owner, &delivered_in_top, &disposed_at_top_start) {
                    found = Some(v);
                    break;
                }
                cur_top = Some(*e);
                delivered_in_top = vec![0; np];
                disposed_at_top_start = disposed.clone();
            },
            Ev::Spawn(t, ok) => {
                let owner = match cur_top {
                    Some(EvId::Subscribe(p)) => Some(p),
                    _ => None,
                };
                if *ok {
                    while task_owner.len() <= *t as usize {
                        task_owner.push(None);
                    }
                    task_owner[*t as usize] = owner;
                } else if let Some(p) = owner {
                    refused[p as usize] = Some(true);
                }
            },
            Ev::Sleep(_, ms) => {
                if *ms != period {
                    found = Some(viol(spec, "wrong-period", i, format!("sleep({ms} us) requested, period is {period} us")));
                    break;
                }
            },
            Ev::Send(Actor::Probe(p), m) if m.is_terminal() => disposed[*p as usize] = true,
            Ev::In(Actor::Probe(p), m) => {
                let pu = *p as usize;
                match m {
                    M::Hs => {
                        greeted[pu] = true;
                        if refused[pu].is_some() {
                            found = Some(viol(spec, "greeted-although-refused", i, format!("probe {p}: spawn failed but the sink was greeted")));
                        }
                    },
                    M::Data(v) => {
                        if refused[pu].is_some() {
                            found = Some(viol(spec, "data-although-refused", i, format!("probe {p}: spawn failed but the sink received {v:?}")));
                            break;
                        }
                        let own_fire = matches!(cur_top, Some(EvId::Fire(t)) if task_owner.get(t as usize).copied().flatten() == Some(*p));
                        if !own_fire {
                            found = Some(viol(spec, "tick-outside-own-timer", i, format!("probe {p} received {v:?} during {cur_top:?}")));
                            break;
                        }
                        if ival(v) != next_val[pu] {
                            found = Some(viol(spec, "wrong-counter-value", i, format!("probe {p} received {v:?}, expected {}", next_val[pu])));
                            break;
                        }
                        next_val[pu] += 1;
                        delivered_in_top[pu] += 1;
                        if disposed_at_top_start[pu] {
                            found = Some(viol(spec, "tick-after-disposal", i, format!("probe {p} received {v:?} at a tick after its disposal")));
                            break;
                        }
                    },
                    M::Err(id) => {
                        errs[pu] += 1;
                        let kind_ok = *id >= 1000 && {
                            // k-th refusal error must be the k-th injected failure kind
                            let kinds: Vec<u8> = ex.choices.iter().filter(|c| matches!(c.what, What::SpawnRes(_))).map(|c| c.menu[c.pick as usize]).filter(|k| *k != opt::OK).collect();
                            let k = (*id - 1000) as usize;
                            let text = ex.foreign_errs.get(k).cloned().unwrap_or_default().to_lowercase();
                            match kinds.get(k) {
                                Some(&opt::FAIL_SPAWN) => text.contains("spawn"),
                                Some(&opt::FAIL_CLOSED) => text.contains("closed"),
                                _ => false,
                            }
                        };
                        if refused[pu].is_none() || errs[pu] > 1 || !kind_ok || greeted[pu] {
                            found = Some(viol(spec, "unexpected-error", i, format!("probe {p} received Err({id}) (spawn refused: {:?})", refused[pu])));
                            break;
                        }
                    },
                    M::Term => {
                        found = Some(viol(spec, "unexpected-terminate", i, format!("probe {p} received Terminate from interval")));
                        break;
                    },
                    _ => {},
                }
            },
            _ => {},
        }
    }
    if found.is_none() && ex.fault.is_none() && !ex.panicked {
        found = check_top_end(ex.trace.len(), cur_top, &task_owner, &delivered_in_top, &disposed_at_top_start);
        if found.is_none() {
            for p in 0..np {
                if refused[p].is_some() && errs[p] != 1 {
                    found = Some(viol(spec, "refusal-not-reported", ex.trace.len().saturating_sub(1), format!("probe {p}: spawn failed but the sink received {} Errors", errs[p])));
                }
            }
        }
    }
    let _ = Pred::All;
    found
}
