//! Semantic oracles (C07-C16): reference models.
