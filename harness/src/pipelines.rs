//! C06: every pull pipeline `from_iter(xs) | stages.. | for_each(f)` up to a depth, on every small
//! input, against a boring demand-driven reference interpreter.

use callbag::{Message, Source};
use never::Never;
use std::cell::RefCell;
use std::panic::{catch_unwind, AssertUnwindSafe};
use std::sync::Arc;

pub type Src = Arc<Source<i64>>;

thread_local! {
    /// next() calls per iterator class: 0 = main input, 1 = concat sub-pipeline, 2 = flat-map inners
    static NEXTS: RefCell<[u32; 3]> = const { RefCell::new([0; 3]) };
    static SEEN: RefCell<Vec<i64>> = const { RefCell::new(Vec::new()) };
    /// tap before for_each: [handshakes, data, terminates, errors]
    static TAP: RefCell<[u32; 4]> = const { RefCell::new([0; 4]) };
}

pub const UNBOUNDED_CAP: usize = 64;

pub struct Abort;

#[derive(Clone, Debug)]
pub struct It {
    class: u8,
    xs: Arc<Vec<i64>>,
    unbounded: bool,
}

#[derive(Debug)]
pub struct ItIter {
    class: u8,
    xs: Arc<Vec<i64>>,
    unbounded: bool,
    pos: usize,
}

impl IntoIterator for It {
    type Item = i64;
    type IntoIter = ItIter;
    fn into_iter(self) -> ItIter {
        ItIter { class: self.class, xs: self.xs, unbounded: self.unbounded, pos: 0 }
    }
}

impl Iterator for ItIter {
    type Item = i64;
    fn size_hint(&self) -> (usize, Option<usize>) {
        if self.unbounded {
            (usize::MAX, None)
        } else {
            let left = self.xs.len().saturating_sub(self.pos);
            (left, Some(left))
        }
    }
    fn next(&mut self) -> Option<i64> {
        NEXTS.with(|n| n.borrow_mut()[self.class as usize] += 1);
        if self.unbounded {
            self.pos += 1;
            if self.pos > UNBOUNDED_CAP {
                std::panic::resume_unwind(Box::new(Abort));
            }
            Some(self.pos as i64)
        } else {
            let r = self.xs.get(self.pos).copied();
            self.pos += 1;
            r
        }
    }
}

#[derive(Clone, Debug, PartialEq, Eq, Hash)]
pub enum Simple {
    MapAdd,
    MapMul,
    FilterEven,
    FilterOdd,
    FilterGt1,
    FilterNone,
    Scan,
    Take(usize),
    Skip(usize),
}

#[derive(Clone, Debug, PartialEq, Eq, Hash)]
pub enum Stage {
    S(Simple),
    /// concat!(upstream, P)
    ConcatAfter(Vec<i64>, Option<Simple>),
    /// concat!(P, upstream)
    ConcatBefore(Vec<i64>, Option<Simple>),
    /// map(x -> from_iter(g(x)) | stage) then flatten
    FlatMap(u8, Option<Simple>),
    /// concat!(upstream, upstream): the same source value subscribed twice in sequence
    ConcatSelf,
    /// concat!(upstream, from_iter(a), from_iter(b)): three members, the middle one possibly empty
    Concat3After(Vec<i64>, Vec<i64>),
    /// concat!(from_iter(a), upstream, from_iter(b))
    Concat3Middle(Vec<i64>, Vec<i64>),
    /// map(_ -> P) then flatten, where P is ONE sub-pipeline value returned for every element
    FlatMapShared(Vec<i64>, Option<Simple>),
}

pub fn g(kind: u8, x: i64) -> Vec<i64> {
    match kind {
        0 => vec![x * 10, x * 10 + 1],
        1 => {
            if x % 2 != 0 {
                vec![x]
            } else {
                vec![]
            }
        },
        _ => vec![x],
    }
}

fn apply_simple(s: &Simple, src: Src) -> Src {
    match s {
        Simple::MapAdd => Arc::new(callbag::map(|x: i64| x + 100)(src)),
        Simple::MapMul => Arc::new(callbag::map(|x: i64| x * 2)(src)),
        Simple::FilterEven => Arc::new(callbag::filter(|x: &i64| x % 2 == 0)(src)),
        Simple::FilterOdd => Arc::new(callbag::filter(|x: &i64| x % 2 != 0)(src)),
        Simple::FilterGt1 => Arc::new(callbag::filter(|x: &i64| *x > 1)(src)),
        Simple::FilterNone => Arc::new(callbag::filter(|_: &i64| false)(src)),
        Simple::Scan => Arc::new(callbag::scan(|a: i64, x: i64| (a * 10 + x) % 100_000, 0)(src)),
        Simple::Take(n) => Arc::new(callbag::take(*n)(src)),
        Simple::Skip(n) => Arc::new(callbag::skip(*n)(src)),
    }
}

fn sub_pipeline(ys: &[i64], st: &Option<Simple>, class: u8) -> Src {
    let src: Src =
        Arc::new(callbag::from_iter(It { class, xs: Arc::new(ys.to_vec()), unbounded: false }));
    match st {
        Some(s) => apply_simple(s, src),
        None => src,
    }
}

pub fn apply_stage(s: &Stage, src: Src) -> Src {
    match s {
        Stage::S(x) => apply_simple(x, src),
        Stage::ConcatAfter(ys, st) => {
            Arc::new(callbag::concat(vec![src, sub_pipeline(ys, st, 1)].into_boxed_slice()))
        },
        Stage::ConcatBefore(ys, st) => {
            Arc::new(callbag::concat(vec![sub_pipeline(ys, st, 1), src].into_boxed_slice()))
        },
        Stage::FlatMap(kind, st) => {
            let kind = *kind;
            let st = st.clone();
            let mapped: Source<Src> =
                callbag::map(move |x: i64| sub_pipeline(&g(kind, x), &st, 2))(src);
            Arc::new(callbag::flatten(mapped))
        },
        Stage::ConcatSelf => Arc::new(callbag::concat(vec![src.clone(), src].into_boxed_slice())),
        Stage::Concat3After(a, b) => Arc::new(callbag::concat(
            vec![src, sub_pipeline(a, &None, 1), sub_pipeline(b, &None, 1)].into_boxed_slice(),
        )),
        Stage::Concat3Middle(a, b) => Arc::new(callbag::concat(
            vec![sub_pipeline(a, &None, 1), src, sub_pipeline(b, &None, 1)].into_boxed_slice(),
        )),
        Stage::FlatMapShared(ys, st) => {
            let shared = sub_pipeline(ys, st, 2);
            let mapped: Source<Src> = callbag::map(move |_x: i64| shared.clone())(src);
            Arc::new(callbag::flatten(mapped))
        },
    }
}

type SinkSlot = Arc<std::sync::Mutex<Option<Arc<callbag::Sink<i64>>>>>;

thread_local! {
    /// downstream sinks held by taps: cleared after every run to break the for_each <-> source
    /// reference cycle (otherwise every run leaks its whole subscription graph)
    static SLOTS: RefCell<Vec<SinkSlot>> = const { RefCell::new(Vec::new()) };
}

fn light_tap(src: Src) -> Src {
    Arc::new(
        (move |m: Message<Never, i64>| {
            if let Message::Handshake(sink) = m {
                let slot: SinkSlot = Arc::new(std::sync::Mutex::new(Some(sink)));
                SLOTS.with(|s| s.borrow_mut().push(slot.clone()));
                let wrapped: Arc<callbag::Sink<i64>> = Arc::new(
                    (move |m: Message<i64, Never>| {
                        TAP.with(|t| {
                            let mut t = t.borrow_mut();
                            match &m {
                                Message::Handshake(_) => t[0] += 1,
                                Message::Data(_) => t[1] += 1,
                                Message::Terminate => t[2] += 1,
                                Message::Error(_) => t[3] += 1,
                                Message::Pull => {},
                            }
                        });
                        let sink = slot.lock().unwrap_or_else(|e| e.into_inner()).clone();
                        if let Some(sink) = sink {
                            sink(m);
                        }
                    })
                    .into(),
                );
                src(Message::Handshake(wrapped));
            }
        })
        .into(),
    )
}

fn clear_slots() {
    let v: Vec<SinkSlot> = SLOTS.with(|s| std::mem::take(&mut *s.borrow_mut()));
    for slot in v {
        *slot.lock().unwrap_or_else(|e| e.into_inner()) = None;
    }
}

#[derive(Clone, Debug, PartialEq, Eq)]
pub struct Outcome {
    pub seen: Vec<i64>,
    pub nexts: [u32; 3],
    pub tap: [u32; 4],
    pub panicked: bool,
    pub aborted: bool,
}

fn reset() {
    NEXTS.with(|n| *n.borrow_mut() = [0; 3]);
    SEEN.with(|s| s.borrow_mut().clear());
    TAP.with(|t| *t.borrow_mut() = [0; 4]);
}

fn collect(panicked: bool, aborted: bool) -> Outcome {
    Outcome {
        seen: SEEN.with(|s| s.borrow().clone()),
        nexts: NEXTS.with(|n| *n.borrow()),
        tap: TAP.with(|t| *t.borrow()),
        panicked,
        aborted,
    }
}

#[derive(Clone, Debug, PartialEq, Eq, Hash)]
pub enum Input {
    List(Vec<i64>),
    Unbounded,
}

fn main_source(input: &Input) -> Src {
    match input {
        Input::List(xs) => {
            Arc::new(callbag::from_iter(It { class: 0, xs: Arc::new(xs.clone()), unbounded: false }))
        },
        Input::Unbounded => {
            Arc::new(callbag::from_iter(It { class: 0, xs: Arc::new(vec![]), unbounded: true }))
        },
    }
}

/// Run the real pipeline.
pub fn run_real(stages: &[Stage], input: &Input) -> Outcome {
    reset();
    let r = catch_unwind(AssertUnwindSafe(|| {
        let mut src = main_source(input);
        for s in stages {
            src = apply_stage(s, src);
        }
        let src = light_tap(src);
        callbag::for_each(|x: i64| SEEN.with(|s| s.borrow_mut().push(x)))(src);
    }));
    clear_slots();
    match r {
        Ok(()) => collect(false, false),
        Err(p) => {
            let aborted = p.is::<Abort>();
            collect(!aborted, aborted)
        },
    }
}

// ------------------------------------------------------------------------------------------------
// Reference: a boring pull-based interpreter with demand counting.

trait Node {
    fn pull(&mut self, c: &mut [u32; 3]) -> Result<Option<i64>, ()>;
}

struct RSrc {
    class: u8,
    xs: Vec<i64>,
    unbounded: bool,
    pos: usize,
}
impl Node for RSrc {
    fn pull(&mut self, c: &mut [u32; 3]) -> Result<Option<i64>, ()> {
        c[self.class as usize] += 1;
        if self.unbounded {
            self.pos += 1;
            if self.pos > UNBOUNDED_CAP {
                return Err(());
            }
            Ok(Some(self.pos as i64))
        } else {
            let r = self.xs.get(self.pos).copied();
            self.pos += 1;
            Ok(r)
        }
    }
}

struct RSimple {
    s: Simple,
    inner: Box<dyn Node>,
    acc: i64,
    count: usize,
    done: bool,
}
impl Node for RSimple {
    fn pull(&mut self, c: &mut [u32; 3]) -> Result<Option<i64>, ()> {
        if self.done {
            return Ok(None);
        }
        loop {
            if let Simple::Take(n) = self.s {
                if self.count >= n {
                    self.done = true;
                    return Ok(None);
                }
            }
            let x = match self.inner.pull(c)? {
                Some(x) => x,
                None => {
                    self.done = true;
                    return Ok(None);
                },
            };
            match &self.s {
                Simple::MapAdd => return Ok(Some(x + 100)),
                Simple::MapMul => return Ok(Some(x * 2)),
                Simple::FilterEven => {
                    if x % 2 == 0 {
                        return Ok(Some(x));
                    }
                },
                Simple::FilterOdd => {
                    if x % 2 != 0 {
                        return Ok(Some(x));
                    }
                },
                Simple::FilterGt1 => {
                    if x > 1 {
                        return Ok(Some(x));
                    }
                },
                Simple::FilterNone => {},
                Simple::Scan => {
                    self.acc = (self.acc * 10 + x) % 100_000;
                    return Ok(Some(self.acc));
                },
                Simple::Take(_) => {
                    self.count += 1;
                    return Ok(Some(x));
                },
                Simple::Skip(n) => {
                    if self.count < *n {
                        self.count += 1;
                    } else {
                        return Ok(Some(x));
                    }
                },
            }
        }
    }
}

struct RChain {
    a: Box<dyn Node>,
    b: Box<dyn Node>,
    on_b: bool,
}
impl Node for RChain {
    fn pull(&mut self, c: &mut [u32; 3]) -> Result<Option<i64>, ()> {
        if !self.on_b {
            match self.a.pull(c)? {
                Some(x) => return Ok(Some(x)),
                None => self.on_b = true,
            }
        }
        self.b.pull(c)
    }
}

struct RFlat {
    outer: Box<dyn Node>,
    kind: u8,
    st: Option<Simple>,
    cur: Option<Box<dyn Node>>,
    done: bool,
}
impl Node for RFlat {
    fn pull(&mut self, c: &mut [u32; 3]) -> Result<Option<i64>, ()> {
        if self.done {
            return Ok(None);
        }
        loop {
            if let Some(cur) = self.cur.as_mut() {
                match cur.pull(c)? {
                    Some(x) => return Ok(Some(x)),
                    None => self.cur = None,
                }
            }
            match self.outer.pull(c)? {
                Some(x) => self.cur = Some(rsub(&g(self.kind, x), &self.st, 2)),
                None => {
                    self.done = true;
                    return Ok(None);
                },
            }
        }
    }
}

fn rsimple(s: &Simple, inner: Box<dyn Node>) -> Box<dyn Node> {
    Box::new(RSimple { s: s.clone(), inner, acc: 0, count: 0, done: false })
}

fn rsub(ys: &[i64], st: &Option<Simple>, class: u8) -> Box<dyn Node> {
    let src: Box<dyn Node> = Box::new(RSrc { class, xs: ys.to_vec(), unbounded: false, pos: 0 });
    match st {
        Some(s) => rsimple(s, src),
        None => src,
    }
}

struct RFlatShared {
    outer: Box<dyn Node>,
    ys: Vec<i64>,
    st: Option<Simple>,
    cur: Option<Box<dyn Node>>,
    done: bool,
}
impl Node for RFlatShared {
    fn pull(&mut self, c: &mut [u32; 3]) -> Result<Option<i64>, ()> {
        if self.done {
            return Ok(None);
        }
        loop {
            if let Some(cur) = self.cur.as_mut() {
                match cur.pull(c)? {
                    Some(x) => return Ok(Some(x)),
                    None => self.cur = None,
                }
            }
            match self.outer.pull(c)? {
                // every subscription of the shared sub-pipeline is a fresh traversal
                Some(_) => self.cur = Some(rsub(&self.ys, &self.st, 2)),
                None => {
                    self.done = true;
                    return Ok(None);
                },
            }
        }
    }
}

/// build the reference node for the first `k` stages (a cold source: every call is a fresh
/// subscription)
fn rbuild(stages: &[Stage], input: &Input) -> Box<dyn Node> {
    match stages.split_last() {
        None => match input {
            Input::List(xs) => Box::new(RSrc { class: 0, xs: xs.clone(), unbounded: false, pos: 0 }),
            Input::Unbounded => Box::new(RSrc { class: 0, xs: vec![], unbounded: true, pos: 0 }),
        },
        Some((last, rest)) => {
            let node = rbuild(rest, input);
            match last {
                Stage::S(x) => rsimple(x, node),
                Stage::ConcatAfter(ys, st) => Box::new(RChain { a: node, b: rsub(ys, st, 1), on_b: false }),
                Stage::ConcatBefore(ys, st) => Box::new(RChain { a: rsub(ys, st, 1), b: node, on_b: false }),
                Stage::FlatMap(kind, st) => Box::new(RFlat { outer: node, kind: *kind, st: st.clone(), cur: None, done: false }),
                Stage::ConcatSelf => Box::new(RChain { a: node, b: rbuild(rest, input), on_b: false }),
                Stage::Concat3After(a, b) => Box::new(RChain {
                    a: Box::new(RChain { a: node, b: rsub(a, &None, 1), on_b: false }),
                    b: rsub(b, &None, 1),
                    on_b: false,
                }),
                Stage::Concat3Middle(a, b) => Box::new(RChain {
                    a: Box::new(RChain { a: rsub(a, &None, 1), b: node, on_b: false }),
                    b: rsub(b, &None, 1),
                    on_b: false,
                }),
                Stage::FlatMapShared(ys, st) => Box::new(RFlatShared { outer: node, ys: ys.clone(), st: st.clone(), cur: None, done: false }),
            }
        },
    }
}

/// Reference outcome: Some((values f must see, next() calls per class)) or None if the demand
/// on an unbounded input is not finite (then the case is outside the property's quantifier).
pub fn run_ref(stages: &[Stage], input: &Input) -> Option<(Vec<i64>, [u32; 3])> {
    let mut node = rbuild(stages, input);
    let mut c = [0u32; 3];
    let mut out = vec![];
    loop {
        match node.pull(&mut c) {
            Ok(Some(x)) => {
                out.push(x);
                if out.len() > 4 * UNBOUNDED_CAP {
                    return None;
                }
            },
            Ok(None) => break,
            Err(()) => return None,
        }
    }
    Some((out, c))
}

pub fn alphabet(thorough: bool) -> Vec<Stage> {
    let mut v = vec![];
    let mut simples = vec![
        Simple::MapAdd,
        Simple::MapMul,
        Simple::FilterEven,
        Simple::FilterOdd,
        Simple::FilterGt1,
        Simple::FilterNone,
        Simple::Scan,
    ];
    for n in 1..=3 {
        simples.push(Simple::Take(n));
        simples.push(Simple::Skip(n));
    }
    for s in &simples {
        v.push(Stage::S(s.clone()));
    }
    let sub_stages: Vec<Option<Simple>> = if thorough {
        vec![None, Some(Simple::Take(1)), Some(Simple::FilterEven), Some(Simple::MapAdd), Some(Simple::Skip(1))]
    } else {
        vec![None, Some(Simple::Take(1)), Some(Simple::FilterEven)]
    };
    for ys in [vec![], vec![7], vec![7, 8]] {
        for st in &sub_stages {
            if ys.is_empty() && st.is_some() {
                continue;
            }
            v.push(Stage::ConcatAfter(ys.clone(), st.clone()));
            v.push(Stage::ConcatBefore(ys.clone(), st.clone()));
        }
    }
    let inner_stages: Vec<Option<Simple>> = if thorough {
        vec![None, Some(Simple::Take(1)), Some(Simple::FilterOdd), Some(Simple::Skip(1))]
    } else {
        vec![None, Some(Simple::Take(1)), Some(Simple::Skip(1))]
    };
    for kind in 0..3u8 {
        for st in &inner_stages {
            v.push(Stage::FlatMap(kind, st.clone()));
        }
    }
    v.push(Stage::ConcatSelf);
    v.push(Stage::Concat3After(vec![], vec![8]));
    v.push(Stage::Concat3Middle(vec![7], vec![8]));
    if thorough {
        v.push(Stage::Concat3After(vec![7], vec![]));
        v.push(Stage::Concat3Middle(vec![], vec![8]));
    }
    v.push(Stage::FlatMapShared(vec![7, 8], None));
    v.push(Stage::FlatMapShared(vec![7, 8, 9], Some(Simple::Skip(1))));
    if thorough {
        v.push(Stage::FlatMapShared(vec![7, 8], Some(Simple::Take(1))));
    }
    v
}

pub fn inputs() -> Vec<Input> {
    let mut v = vec![Input::List(vec![])];
    let mut frontier: Vec<Vec<i64>> = vec![vec![]];
    for _ in 0..3 {
        let mut next = vec![];
        for l in &frontier {
            for x in 1..=3 {
                let mut m = l.clone();
                m.push(x);
                next.push(m);
            }
        }
        v.extend(next.iter().cloned().map(Input::List));
        frontier = next;
    }
    v.push(Input::Unbounded);
    v
}

/// Compare one (program, input); Some((clause, detail)) on disagreement.
pub fn check_one(stages: &[Stage], input: &Input) -> Option<(String, String)> {
    let Some((want, want_next)) = run_ref(stages, input) else { return None };
    let got = run_real(stages, input);
    if got.panicked {
        return Some(("panic".into(), format!("the pipeline panicked; f had seen {:?}", got.seen)));
    }
    if got.aborted {
        return Some(("unbounded-iterator-not-stopped".into(), format!("the iterator was advanced more than {UNBOUNDED_CAP} times although the reference demand is finite ({want_next:?}); f saw {:?}", got.seen)));
    }
    if got.seen != want {
        return Some(("not-the-list-function".into(), format!("f saw {:?}, expected {:?}", got.seen, want)));
    }
    if got.tap[2] != 1 || got.tap[3] != 0 || got.tap[0] != 1 {
        return Some(("did-not-complete".into(), format!("for_each's source delivered handshakes/data/terminates/errors = {:?}; expected exactly one Terminate inside the subscribing call", got.tap)));
    }
    if got.nexts != want_next {
        return Some(("iterator-demand".into(), format!("next() calls per iterator class [input, concat operand, flat-map inners] = {:?}, expected {:?}", got.nexts, want_next)));
    }
    None
}

/// pipe! is plain left-to-right application: instantiate the macro for every arity 2..=6 on the
/// same stage values and compare with manual application.
pub fn check_pipe_macro() -> Option<(String, String)> {
    use callbag::pipe;
    let stage = |s: Simple| move |src: Src| apply_simple(&s, src);
    for input in inputs() {
        let fe = || callbag::for_each(|x: i64| SEEN.with(|s| s.borrow_mut().push(x)));
        let run = |f: &dyn Fn()| -> Outcome {
            reset();
            let r = catch_unwind(AssertUnwindSafe(f));
            match r {
                Ok(()) => collect(false, false),
                Err(p) => {
                    let a = p.is::<Abort>();
                    collect(!a, a)
                },
            }
        };
        // four stages of which no two commute (on some input), so that any wrong nesting order of
        // the macro expansion changes what f sees
        let a = Simple::FilterGt1;
        let b = Simple::MapMul;
        let c = Simple::MapAdd;
        let d = Simple::Scan;
        let cases: Vec<(Outcome, Outcome, &str)> = vec![
            (
                run(&|| pipe!(main_source(&input), fe())),
                run(&|| fe()(main_source(&input))),
                "arity 2",
            ),
            (
                run(&|| pipe!(main_source(&input), stage(a.clone()), fe())),
                run(&|| fe()(stage(a.clone())(main_source(&input)))),
                "arity 3",
            ),
            (
                run(&|| pipe!(main_source(&input), stage(a.clone()), stage(b.clone()), fe())),
                run(&|| fe()(stage(b.clone())(stage(a.clone())(main_source(&input))))),
                "arity 4",
            ),
            (
                run(&|| pipe!(main_source(&input), stage(a.clone()), stage(b.clone()), stage(c.clone()), fe())),
                run(&|| fe()(stage(c.clone())(stage(b.clone())(stage(a.clone())(main_source(&input)))))),
                "arity 5",
            ),
            (
                run(&|| {
                    pipe!(main_source(&input), stage(a.clone()), stage(b.clone()), stage(c.clone()), stage(d.clone()), fe(),)
                }),
                run(&|| fe()(stage(d.clone())(stage(c.clone())(stage(b.clone())(stage(a.clone())(main_source(&input))))))),
                "arity 6",
            ),
        ];
        for (x, y, what) in cases {
            if x != y {
                return Some(("pipe-macro".into(), format!("pipe! {what} on {input:?}: {x:?} vs manual application {y:?}")));
            }
        }
    }
    None
}

/// hash of what one (program, input) run of the real code did (C20 digests)
pub fn last_outcome_hash(stages: &[Stage], input: &Input, prog: &[usize], ii: usize) -> u64 {
    use std::hash::{Hash, Hasher};
    let o = run_real(stages, input);
    let mut h = std::collections::hash_map::DefaultHasher::new();
    (prog, ii, &o.seen, o.nexts, o.tap, o.panicked, o.aborted).hash(&mut h);
    h.finish()
}
