//! Threaded worlds (C18, C19): real OS threads serialised by a baton; one thread runs at a time;
//! switch points = every access to the hooked operators' shared state (callbag feature `verif`)
//! plus harness-owned points (probe handler entry, puppet disposed-flag reads, thread start/exit,
//! join). The explorer decides every switch; switching away from a runnable thread costs one
//! preemption.

use crate::exec::*;
use crate::explore::{Target, Viol};
use callbag::{Message, Sink, Source};
use never::Never;
use std::cell::RefCell;
use std::collections::hash_map::DefaultHasher;
use std::hash::{Hash, Hasher};
use std::panic::{catch_unwind, AssertUnwindSafe};
use std::sync::atomic::{AtomicBool, AtomicUsize, Ordering};
use std::sync::{Arc, Condvar, Mutex};

#[derive(Clone, Copy, PartialEq, Eq, Debug)]
enum ThState {
    NotStarted,
    Runnable,
    /// main thread waiting for all others to finish
    Joining,
    Finished,
}

struct SchedSt {
    current: usize,
    threads: Vec<ThState>,
    aborted: bool,
    points: usize,
}

pub struct Sched {
    m: Mutex<SchedSt>,
    cv: Condvar,
}

pub const MAX_POINTS: usize = 5000;

thread_local! {
    static TH: RefCell<Option<(Arc<Sched>, usize)>> = const { RefCell::new(None) };
}

pub fn my_tid() -> u8 {
    TH.with(|t| t.borrow().as_ref().map(|x| x.1 as u8).unwrap_or(0))
}

fn th() -> Option<(Arc<Sched>, usize)> {
    TH.with(|t| t.borrow().clone())
}

impl Sched {
    fn new(n: usize) -> Arc<Sched> {
        let mut threads = vec![ThState::NotStarted; n];
        threads[0] = ThState::Runnable;
        Arc::new(Sched { m: Mutex::new(SchedSt { current: 0, threads, aborted: false, points: 0 }), cv: Condvar::new() })
    }

    fn lock(&self) -> std::sync::MutexGuard<'_, SchedSt> {
        self.m.lock().unwrap_or_else(|e| e.into_inner())
    }

    fn abort_all(&self) {
        let mut g = self.lock();
        g.aborted = true;
        self.cv.notify_all();
    }

    /// block until this thread holds the baton (or the execution is aborted)
    fn wait_for_baton(&self, me: usize) {
        let mut g = self.lock();
        while g.current != me && !g.aborted {
            g = self.cv.wait(g).unwrap_or_else(|e| e.into_inner());
        }
        let aborted = g.aborted;
        drop(g);
        if aborted {
            abort();
        }
    }

    fn enabled(&self, me: usize, me_enabled: bool) -> Vec<usize> {
        let g = self.lock();
        let mut v = vec![];
        if me_enabled {
            v.push(me);
        }
        for (i, s) in g.threads.iter().enumerate() {
            if i != me && *s == ThState::Runnable {
                v.push(i);
            }
        }
        v
    }

    fn hand_to(&self, to: usize) {
        let mut g = self.lock();
        g.current = to;
        self.cv.notify_all();
    }

    /// a scheduling point of a running thread
    fn point(&self, me: usize) {
        {
            let mut g = self.lock();
            if g.aborted {
                drop(g);
                abort();
            }
            g.points += 1;
            if g.points > MAX_POINTS {
                drop(g);
                fault(Fault::Divergence);
            }
        }
        let en = self.enabled(me, true);
        if en.len() <= 1 {
            return;
        }
        let menu: Vec<u8> = en.iter().map(|t| opt::THREAD0 + *t as u8).collect();
        let pick = choose_ex(en.len(), Kind::Sched, What::Sched, &menu, u32::MAX, true);
        if pick != 0 {
            self.hand_to(en[pick]);
            self.wait_for_baton(me);
        }
    }

    /// the running thread stops being runnable (finished, or main joining): pick who runs next
    fn leave(&self, me: usize, new_state: ThState) {
        {
            let mut g = self.lock();
            g.threads[me] = new_state;
        }
        let en = self.enabled(me, false);
        if en.is_empty() {
            // nobody runnable: if main is joining and everyone else finished, main continues
            let mut g = self.lock();
            let all_done = g.threads.iter().enumerate().all(|(i, s)| i == 0 || *s == ThState::Finished);
            if g.threads[0] == ThState::Joining && all_done {
                g.threads[0] = ThState::Runnable;
                g.current = 0;
                self.cv.notify_all();
            } else if me != 0 || new_state != ThState::Finished {
                // deadlock: no enabled thread while some are unfinished
                g.aborted = true;
                self.cv.notify_all();
                drop(g);
                with(|ex| {
                    if ex.fault.is_none() {
                        ex.fault = Some(Fault::Internal("deadlock: no enabled thread".into()))
                    }
                });
            }
            return;
        }
        let pick = if en.len() == 1 {
            0
        } else {
            let menu: Vec<u8> = en.iter().map(|t| opt::THREAD0 + *t as u8).collect();
            choose_ex(en.len(), Kind::Sched, What::Sched, &menu, u32::MAX, false)
        };
        self.hand_to(en[pick]);
    }
}

/// scheduling point callable from anywhere (no-op outside a threaded execution)
pub fn sched_point() {
    if let Some((s, me)) = th() {
        s.point(me);
    }
}

#[cfg(feature = "verif")]
pub fn install_hook() {
    callbag::verif::set_hook(|_addr, _access| sched_point());
}
#[cfg(not(feature = "verif"))]
pub fn install_hook() {}

pub fn hooks_compiled_in() -> bool {
    cfg!(feature = "verif")
}

// ------------------------------------------------------------------------------------------------
// worlds

#[derive(Clone, Debug, PartialEq, Eq)]
pub enum TKind {
    /// toy: k threads each do load;store increments on a shared counter (engine self-test)
    ToyCounter { atomic_rmw: bool },
    Merge(usize),
    Combine(usize),
    /// take(n) fed directly by `threads` threads delivering into its source-talkback
    TakeDirect { n: usize, threads: usize },
    /// take(n) behind merge! of `members` thread-driven members
    TakeMerge { n: usize, members: usize },
}

#[derive(Clone, Debug)]
pub struct TSpec {
    pub name: String,
    pub kind: TKind,
    pub data_per_thread: u8,
    /// members greet from their own threads instead of inside the subscribing call
    pub greet_in_thread: bool,
    /// this member fails (Error) instead of completing
    pub fail_member: Option<usize>,
    pub preempt: u32,
}

impl TSpec {
    pub fn nthreads(&self) -> usize {
        1 + match &self.kind {
            TKind::ToyCounter { .. } => 2,
            TKind::Merge(n) | TKind::Combine(n) => *n,
            TKind::TakeDirect { threads, .. } => *threads,
            TKind::TakeMerge { members, .. } => *members,
        }
    }
    pub fn family(&self) -> &'static str {
        match &self.kind {
            TKind::ToyCounter { .. } => "toy",
            TKind::Merge(_) => "merge",
            TKind::Combine(_) => "combine",
            TKind::TakeDirect { .. } => "take-direct",
            TKind::TakeMerge { .. } => "take-merge",
        }
    }
}

/// thread-driven puppet member: one sink slot per subscription (single subscription here)
struct TPup {
    j: u8,
    sink: Mutex<Option<Arc<Sink<i64>>>>,
    stopped: AtomicBool,
    stops: AtomicUsize,
    greet_inline: bool,
}

impl TPup {
    fn source(self: &Arc<Self>) -> Source<i64> {
        let me = self.clone();
        (move |m: Message<Never, i64>| {
            if let Message::Handshake(sink) = m {
                *me.sink.lock().unwrap() = Some(sink);
                trec(Ev::In(Actor::Sub(me.j as u16), M::Hs));
                if me.greet_inline {
                    me.greet();
                }
                trec(Ev::Out(Actor::Sub(me.j as u16)));
            }
        })
        .into()
    }
    fn greet(self: &Arc<Self>) {
        let me = self.clone();
        let tb: Arc<Source<i64>> = Arc::new(
            (move |m: Message<Never, i64>| {
                let ms = match &m {
                    Message::Pull => M::Pull,
                    Message::Terminate => M::Term,
                    Message::Error(_) => M::Err(999),
                    Message::Handshake(_) => M::Hs,
                    Message::Data(_) => M::Data(Val::I(-1)),
                };
                trec(Ev::In(Actor::Sub(me.j as u16), ms));
                if ms.is_terminal() {
                    me.stops.fetch_add(1, Ordering::SeqCst);
                    me.stopped.store(true, Ordering::SeqCst);
                }
                trec(Ev::Out(Actor::Sub(me.j as u16)));
            })
            .into(),
        );
        let sink = self.sink.lock().unwrap().clone().expect("subscribed");
        trec(Ev::Send(Actor::Sub(self.j as u16), M::Hs));
        sink(Message::Handshake(tb));
        trec(Ev::Ret(Actor::Sub(self.j as u16)));
    }
    /// a conformant concurrent source: look at the disposed flag (a scheduling point), then send
    fn send(self: &Arc<Self>, m: Message<i64, Never>, ms: M) -> bool {
        sched_point();
        if self.stopped.load(Ordering::SeqCst) {
            return false;
        }
        let sink = self.sink.lock().unwrap().clone().expect("subscribed");
        trec(Ev::Send(Actor::Sub(self.j as u16), ms));
        sink(m);
        trec(Ev::Ret(Actor::Sub(self.j as u16)));
        true
    }
}

/// record a trace event tagged with the recording thread
fn trec(ev: Ev) {
    let tid = my_tid();
    with(|ex| {
        ex.trace.push(ev);
        ex.tids.push(tid);
        ex.msgs += 1;
    });
}

fn tprobe<T: Send + Sync + 'static>(recf: Arc<dyn Fn(&T) -> Val + Send + Sync>) -> Arc<Sink<T>> {
    Arc::new(
        (move |m: Message<T, Never>| {
            let ms = match &m {
                Message::Handshake(_) => M::Hs,
                Message::Data(x) => M::Data(recf(x)),
                Message::Pull => M::Pull,
                Message::Error(_) => M::Err(999),
                Message::Terminate => M::Term,
            };
            trec(Ev::In(Actor::Probe(0), ms));
            // the handler takes time: other threads may run while this delivery is in progress
            sched_point();
            trec(Ev::Out(Actor::Probe(0)));
        })
        .into(),
    )
}

pub struct TTarget {
    pub spec: TSpec,
    pub oracle: fn(&TSpec, &Exec) -> Option<Viol>,
}

type Body = Box<dyn FnOnce() + Send>;

fn run_threads(spec: &TSpec, ex: &Arc<Mutex<Exec>>, main_body: impl FnOnce(), bodies: Vec<Body>) {
    let n = bodies.len() + 1;
    let sched = Sched::new(n);
    TH.with(|t| *t.borrow_mut() = Some((sched.clone(), 0)));
    let mut handles = vec![];
    for (i, b) in bodies.into_iter().enumerate() {
        let tid = i + 1;
        let sched = sched.clone();
        let ex = ex.clone();
        handles.push(std::thread::spawn(move || {
            install(ex.clone());
            TH.with(|t| *t.borrow_mut() = Some((sched.clone(), tid)));
            let r = catch_unwind(AssertUnwindSafe(|| {
                sched.wait_for_baton(tid);
                b();
            }));
            match r {
                Ok(()) => {
                    let r2 = catch_unwind(AssertUnwindSafe(|| sched.leave(tid, ThState::Finished)));
                    if r2.is_err() {
                        sched.abort_all();
                    }
                },
                Err(p) => {
                    if !p.is::<HarnessAbort>() {
                        let msg = if let Some(s) = p.downcast_ref::<&str>() {
                            s.to_string()
                        } else if let Some(s) = p.downcast_ref::<String>() {
                            s.clone()
                        } else {
                            "<non-string panic payload>".into()
                        };
                        with(|ex| {
                            if !ex.panicked {
                                ex.panicked = true;
                                ex.panic_msg = Some(msg);
                                ex.trace.push(Ev::Panic);
                                ex.tids.push(tid as u8);
                            }
                        });
                    }
                    sched.abort_all();
                },
            }
            TH.with(|t| *t.borrow_mut() = None);
            uninstall();
        }));
    }
    let r = catch_unwind(AssertUnwindSafe(|| {
        main_body();
        // start the member threads and join them
        {
            let mut g = sched.lock();
            for s in g.threads.iter_mut().skip(1) {
                *s = ThState::Runnable;
            }
        }
        sched.leave(0, ThState::Joining);
        sched.wait_for_baton(0);
    }));
    if let Err(p) = r {
        if !p.is::<HarnessAbort>() {
            with(|ex| {
                if !ex.panicked {
                    ex.panicked = true;
                    ex.panic_msg = Some("panic on the subscribing thread".into());
                    ex.trace.push(Ev::Panic);
                    ex.tids.push(0);
                }
            });
        }
        sched.abort_all();
    }
    for h in handles {
        let _ = h.join();
    }
    TH.with(|t| *t.borrow_mut() = None);
    let _ = spec;
}

pub fn run_tworld(spec: &TSpec, script: &[u16], script_n: &[u16], strict: bool) -> Exec {
    let cfg = Cfg { preempt: spec.preempt, ..Default::default() };
    let ex = Arc::new(Mutex::new(Exec::new(cfg, script.to_vec(), script_n.to_vec(), strict)));
    install(ex.clone());
    let d = spec.data_per_thread as i64;
    match &spec.kind {
        TKind::ToyCounter { atomic_rmw } => {
            let c = Arc::new(AtomicUsize::new(0));
            let rmw = *atomic_rmw;
            let mk = |c: Arc<AtomicUsize>| -> Body {
                Box::new(move || {
                    for _ in 0..d {
                        if rmw {
                            sched_point();
                            c.fetch_add(1, Ordering::SeqCst);
                        } else {
                            sched_point();
                            let v = c.load(Ordering::SeqCst);
                            sched_point();
                            c.store(v + 1, Ordering::SeqCst);
                        }
                    }
                })
            };
            let bodies = vec![mk(c.clone()), mk(c.clone())];
            let c2 = c.clone();
            run_threads(spec, &ex, || {}, bodies);
            let v = c2.load(Ordering::SeqCst) as i64;
            with(|ex| {
                ex.trace.push(Ev::Call(0, v));
                ex.tids.push(0);
            });
        },
        TKind::Merge(n) | TKind::TakeMerge { members: n, .. } => {
            let pups: Vec<Arc<TPup>> = (0..*n)
                .map(|j| Arc::new(TPup { j: j as u8, sink: Mutex::new(None), stopped: AtomicBool::new(false), stops: AtomicUsize::new(0), greet_inline: !spec.greet_in_thread }))
                .collect();
            let srcs: Vec<Arc<Source<i64>>> = pups.iter().map(|p| Arc::new(p.source())).collect();
            let merged: Arc<Source<i64>> = Arc::new(callbag::merge(srcs.into_boxed_slice()));
            let out: Arc<Source<i64>> = match &spec.kind {
                TKind::TakeMerge { n: k, .. } => Arc::new(callbag::take(*k)(merged)),
                _ => merged,
            };
            let probe = tprobe::<i64>(Arc::new(|x| Val::I(*x)));
            let bodies: Vec<Body> = pups.iter().map(|p| member_body(p.clone(), spec)).collect();
            run_threads(spec, &ex, move || out(Message::Handshake(probe)), bodies);
            record_stops(&pups);
        },
        TKind::Combine(n) => {
            let pups: Vec<Arc<TPup>> = (0..*n)
                .map(|j| Arc::new(TPup { j: j as u8, sink: Mutex::new(None), stopped: AtomicBool::new(false), stops: AtomicUsize::new(0), greet_inline: !spec.greet_in_thread }))
                .collect();
            let s: Vec<Arc<Source<i64>>> = pups.iter().map(|p| Arc::new(p.source())).collect();
            let bodies: Vec<Body> = pups.iter().map(|p| member_body(p.clone(), spec)).collect();
            match n {
                2 => {
                    let out = Arc::new(callbag::combine((s[0].clone(), s[1].clone())));
                    let probe = tprobe::<(i64, i64)>(Arc::new(|x| Val::T(2, [x.0, x.1, 0])));
                    run_threads(spec, &ex, move || out(Message::Handshake(probe)), bodies);
                },
                3 => {
                    let out = Arc::new(callbag::combine((s[0].clone(), s[1].clone(), s[2].clone())));
                    let probe = tprobe::<(i64, i64, i64)>(Arc::new(|x| Val::T(3, [x.0, x.1, x.2])));
                    run_threads(spec, &ex, move || out(Message::Handshake(probe)), bodies);
                },
                _ => panic!("combine arity"),
            }
            record_stops(&pups);
        },
        TKind::TakeDirect { n, threads } => {
            let pup = Arc::new(TPup { j: 0, sink: Mutex::new(None), stopped: AtomicBool::new(false), stops: AtomicUsize::new(0), greet_inline: true });
            let out: Arc<Source<i64>> = Arc::new(callbag::take(*n)(Arc::new(pup.source())));
            let probe = tprobe::<i64>(Arc::new(|x| Val::I(*x)));
            let bodies: Vec<Body> = (0..*threads)
                .map(|t| {
                    let p = pup.clone();
                    let b: Body = Box::new(move || {
                        for k in 1..=d {
                            let v = 10 * (t as i64 + 1) + k;
                            if !p.send(Message::Data(v), M::Data(Val::I(v))) {
                                break;
                            }
                        }
                    });
                    b
                })
                .collect();
            run_threads(spec, &ex, move || out(Message::Handshake(probe)), bodies);
            record_stops(&[pup]);
        },
    }
    uninstall();
    match Arc::try_unwrap(ex) {
        Ok(m) => m.into_inner().unwrap_or_else(|e| e.into_inner()),
        Err(a) => {
            // a member closure cycle may still hold the context alive: clone what we need
            let g = a.lock().unwrap_or_else(|e| e.into_inner());
            clone_exec(&g)
        },
    }
}

fn clone_exec(g: &Exec) -> Exec {
    let mut e = Exec::new(g.cfg.clone(), g.script.clone(), g.script_n.clone(), g.strict);
    e.choices = g.choices.clone();
    e.menus = g.menus.clone();
    e.trace = g.trace.clone();
    e.tids = g.tids.clone();
    e.fault = g.fault.clone();
    e.panicked = g.panicked;
    e.panic_msg = g.panic_msg.clone();
    e.msgs = g.msgs;
    e
}

fn record_stops(pups: &[Arc<TPup>]) {
    for p in pups {
        let n = p.stops.load(Ordering::SeqCst) as i64;
        with(|ex| {
            ex.trace.push(Ev::Call(100 + p.j, n));
            ex.tids.push(0);
        });
        *p.sink.lock().unwrap() = None;
    }
}

fn member_body(p: Arc<TPup>, spec: &TSpec) -> Body {
    let d = spec.data_per_thread as i64;
    let greet = spec.greet_in_thread;
    let fails = spec.fail_member == Some(p.j as usize);
    Box::new(move || {
        if greet {
            sched_point();
            p.greet();
        }
        for k in 1..=d {
            let v = 10 * p.j as i64 + k;
            if !p.send(Message::Data(v), M::Data(Val::I(v))) {
                return;
            }
        }
        if fails {
            let e: Arc<dyn std::error::Error + Send + Sync> = Arc::new(crate::actors::PErr(p.j as u32));
            p.send(Message::Error(e), M::Err(p.j as u16));
        } else {
            p.send(Message::Terminate, M::Term);
        }
    })
}

impl Target for TTarget {
    fn name(&self) -> String {
        self.spec.name.clone()
    }
    fn run(&self, script: &[u16], script_n: &[u16], strict: bool) -> Exec {
        run_tworld(&self.spec, script, script_n, strict)
    }
    fn check(&self, ex: &Exec) -> Option<Viol> {
        if let Some(Fault::Divergence) = ex.fault {
            return Some(Viol { clause: "divergence".into(), at: ex.trace.len().saturating_sub(1), detail: "step horizon exceeded".into(), sig: format!("{}/divergence", self.spec.family()) });
        }
        (self.oracle)(&self.spec, ex)
    }
    fn outcome(&self, ex: &Exec) -> (u64, bool) {
        let mut h = DefaultHasher::new();
        let mut nontrivial = false;
        for ev in &ex.trace {
            match ev {
                Ev::In(Actor::Probe(_), m) => {
                    ev.hash(&mut h);
                    if m.is_data() || m.is_terminal() {
                        nontrivial = true;
                    }
                },
                Ev::Call(..) | Ev::Panic => {
                    ev.hash(&mut h);
                    nontrivial = true;
                },
                _ => {},
            }
        }
        (h.finish(), nontrivial)
    }
    fn dev_bound(&self) -> u32 {
        0
    }
    fn preempt_bound(&self) -> u32 {
        self.spec.preempt
    }
    fn bounds(&self) -> (u32, u32) {
        (0, self.spec.preempt)
    }
}

// ------------------------------------------------------------------------------------------------
// oracles

fn tviol(spec: &TSpec, clause: &str, at: usize, detail: String) -> Viol {
    Viol { clause: clause.into(), at, detail, sig: format!("{}/{}", spec.family(), clause) }
}

/// engine self-test oracle: the counter must equal 2*d
pub fn toy_oracle(spec: &TSpec, ex: &Exec) -> Option<Viol> {
    let want = 2 * spec.data_per_thread as i64;
    for (i, ev) in ex.trace.iter().enumerate() {
        if let Ev::Call(0, v) = ev {
            if *v != want {
                return Some(tviol(spec, "lost-update", i, format!("counter = {v}, expected {want}")));
            }
        }
    }
    None
}

struct ProbeView {
    greets: usize,
    data: Vec<(usize, Val)>,
    terms: Vec<(usize, M)>,
}

fn probe_view(ex: &Exec) -> ProbeView {
    let mut v = ProbeView { greets: 0, data: vec![], terms: vec![] };
    for (i, ev) in ex.trace.iter().enumerate() {
        if let Ev::In(Actor::Probe(_), m) = ev {
            match m {
                M::Hs => v.greets += 1,
                M::Data(x) => v.data.push((i, *x)),
                M::Term | M::Err(_) => v.terms.push((i, *m)),
                _ => {},
            }
        }
    }
    v
}

fn panic_viol(spec: &TSpec, ex: &Exec) -> Option<Viol> {
    if ex.panicked {
        let at = ex.trace.iter().position(|e| matches!(e, Ev::Panic)).unwrap_or(0);
        return Some(tviol(spec, "panic", at, format!("the crate panicked: {}", ex.panic_msg.clone().unwrap_or_default())));
    }
    None
}

/// is a Data delivery to the probe in progress on some thread at trace index `at`?
fn data_in_progress(ex: &Exec, at: usize) -> bool {
    let mut open: std::collections::HashMap<u8, Vec<M>> = Default::default();
    for (i, ev) in ex.trace.iter().enumerate() {
        if i >= at {
            break;
        }
        let tid = ex.tids.get(i).copied().unwrap_or(0);
        match ev {
            Ev::In(Actor::Probe(_), m) => open.entry(tid).or_default().push(*m),
            Ev::Out(Actor::Probe(_)) => {
                open.entry(tid).or_default().pop();
            },
            _ => {},
        }
    }
    open.values().any(|st| st.iter().any(|m| m.is_data()))
}

/// C18: fan-in exactly-once under every interleaving.
pub fn c18(spec: &TSpec, ex: &Exec) -> Option<Viol> {
    if let Some(v) = panic_viol(spec, ex) {
        return Some(v);
    }
    if ex.fault.is_some() {
        return None;
    }
    let pv = probe_view(ex);
    let end = ex.trace.len().saturating_sub(1);
    if pv.greets != 1 {
        return Some(tviol(spec, "greeted-not-exactly-once", end, format!("the sink was greeted {} times", pv.greets)));
    }
    // data the members handed in (Send events by member threads)
    let mut sent: Vec<Vec<i64>> = vec![vec![]; 4];
    let mut sent_at: Vec<(usize, u16, i64)> = vec![];
    for (i, ev) in ex.trace.iter().enumerate() {
        if let Ev::Send(Actor::Sub(s), M::Data(Val::I(v))) = ev {
            sent[*s as usize].push(*v);
            sent_at.push((i, *s, *v));
        }
    }
    let failing = spec.fail_member.is_some();
    match &spec.kind {
        TKind::Merge(_) => {
            let mut got: Vec<i64> = pv.data.iter().map(|(_, v)| if let Val::I(x) = v { *x } else { -1 }).collect();
            let mut want: Vec<i64> = sent.iter().flatten().copied().collect();
            got.sort();
            want.sort();
            // no datum twice, none invented
            let mut dedup = got.clone();
            dedup.dedup();
            if dedup.len() != got.len() || got.iter().any(|g| !want.contains(g)) {
                return Some(tviol(spec, "datum-duplicated-or-invented", end, format!("members handed in {want:?}, the sink received {got:?}")));
            }
            if !failing && got != want {
                return Some(tviol(spec, "datum-lost", end, format!("members handed in {want:?}, the sink received {got:?}")));
            }
        },
        TKind::Combine(n) => {
            for (i, v) in &pv.data {
                let Val::T(k, a) = v else { continue };
                if *k as usize != *n {
                    return Some(tviol(spec, "incomplete-tuple", *i, format!("tuple {v:?}")));
                }
                for j in 0..*n {
                    // component j must be a value member j had begun to send before this delivery
                    let ok = sent_at.iter().any(|(si, s, x)| *s as usize == j && *x == a[j] && si < i);
                    if !ok {
                        return Some(tviol(spec, "tuple-component-never-sent", *i, format!("tuple {v:?}: component {j} was not sent by member {j} before")));
                    }
                }
            }
        },
        _ => {},
    }
    // completion
    if pv.terms.len() > 1 {
        return Some(tviol(spec, "terminal-not-exactly-once", pv.terms[1].0, format!("the sink received {} terminal messages", pv.terms.len())));
    }
    if !failing {
        if pv.terms.len() != 1 || pv.terms[0].1 != M::Term {
            return Some(tviol(spec, "completion-not-exactly-once", end, format!("all members completed; the sink received terminal messages {:?}", pv.terms)));
        }
        let t = pv.terms[0].0;
        if data_in_progress(ex, t) {
            return Some(tviol(spec, "completion-during-data-delivery", t, "Terminate was delivered while a Data delivery was still in progress on another thread".into()));
        }
        if let Some((i, v)) = pv.data.iter().find(|(i, _)| *i > t) {
            return Some(tviol(spec, "data-after-completion", *i, format!("{v:?} was delivered after Terminate")));
        }
    } else if pv.terms.len() != 1 {
        return Some(tviol(spec, "terminal-not-exactly-once", end, format!("a member failed; the sink received {} terminal messages", pv.terms.len())));
    }
    None
}

/// C19: take(n) never over-delivers; terminates upstream and sink exactly once.
pub fn c19(spec: &TSpec, ex: &Exec) -> Option<Viol> {
    if let Some(v) = panic_viol(spec, ex) {
        return Some(v);
    }
    if ex.fault.is_some() {
        return None;
    }
    let n = match &spec.kind {
        TKind::TakeDirect { n, .. } | TKind::TakeMerge { n, .. } => *n,
        _ => return None,
    };
    let pv = probe_view(ex);
    let end = ex.trace.len().saturating_sub(1);
    if pv.data.len() > n {
        return Some(tviol(spec, "over-delivery", pv.data[n].0, format!("take({n}) delivered {} data: {:?}", pv.data.len(), pv.data.iter().map(|d| d.1).collect::<Vec<_>>())));
    }
    if pv.terms.len() != 1 || pv.terms[0].1 != M::Term {
        return Some(tviol(spec, "sink-not-terminated-exactly-once", end, format!("take({n}): the sink received terminal messages {:?} (data {})", pv.terms, pv.data.len())));
    }
    // upstream stops
    for ev in ex.trace.iter() {
        if let Ev::Call(id, stops) = ev {
            if *id >= 100 {
                let j = id - 100;
                let direct = matches!(spec.kind, TKind::TakeDirect { .. });
                if *stops > 1 || (direct && *stops != 1) {
                    return Some(tviol(spec, "upstream-not-terminated-exactly-once", end, format!("take({n}): upstream member {j} received {stops} Terminate")));
                }
            }
        }
    }
    None
}
