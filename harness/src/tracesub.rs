//! C20 build (c): a TRACE-level subscriber that records (formats) every field of every span and
//! event, so that all `Debug` implementations reachable from the crate's tracing calls really run.

#[cfg(feature = "tracing")]
mod imp {
    use std::fmt::Write;
    use std::sync::atomic::{AtomicU64, Ordering};
    use tracing_core::field::{Field, Visit};
    use tracing_core::span::{Attributes, Id, Record};
    use tracing_core::{Event, Metadata, Subscriber};

    pub static EVENTS: AtomicU64 = AtomicU64::new(0);
    pub static BYTES: AtomicU64 = AtomicU64::new(0);

    struct Rec(String);
    impl Visit for Rec {
        fn record_debug(&mut self, field: &Field, value: &dyn std::fmt::Debug) {
            let _ = write!(self.0, "{}={:?};", field.name(), value);
        }
    }

    pub struct Recorder {
        next: AtomicU64,
    }

    impl Subscriber for Recorder {
        fn enabled(&self, _m: &Metadata<'_>) -> bool {
            true
        }
        fn new_span(&self, attrs: &Attributes<'_>) -> Id {
            let mut r = Rec(String::new());
            attrs.record(&mut r);
            BYTES.fetch_add(r.0.len() as u64, Ordering::Relaxed);
            Id::from_u64(self.next.fetch_add(1, Ordering::Relaxed) + 1)
        }
        fn record(&self, _span: &Id, values: &Record<'_>) {
            let mut r = Rec(String::new());
            values.record(&mut r);
            BYTES.fetch_add(r.0.len() as u64, Ordering::Relaxed);
        }
        fn record_follows_from(&self, _span: &Id, _follows: &Id) {}
        fn event(&self, event: &Event<'_>) {
            let mut r = Rec(String::new());
            event.record(&mut r);
            EVENTS.fetch_add(1, Ordering::Relaxed);
            BYTES.fetch_add(r.0.len() as u64, Ordering::Relaxed);
        }
        fn enter(&self, _span: &Id) {}
        fn exit(&self, _span: &Id) {}
    }

    pub fn install() -> bool {
        tracing_core::dispatcher::set_global_default(tracing_core::Dispatch::new(Recorder { next: AtomicU64::new(0) })).is_ok()
    }
    pub fn events() -> u64 {
        EVENTS.load(Ordering::Relaxed)
    }
}

#[cfg(feature = "tracing")]
pub use imp::{events, install};

#[cfg(not(feature = "tracing"))]
pub fn install() -> bool {
    false
}
#[cfg(not(feature = "tracing"))]
pub fn events() -> u64 {
    0
}

pub fn tracing_compiled_in() -> bool {
    cfg!(feature = "tracing")
}
