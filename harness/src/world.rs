//! Sequential worlds: one output under test + puppets + probes + the top-level event loop.

use crate::actors::*;
use crate::exec::*;
use crate::nursery;
use std::cell::RefCell;
use std::panic::{catch_unwind, AssertUnwindSafe};
use std::rc::Rc;
use std::sync::{Arc, Mutex};

#[derive(Clone, Debug, PartialEq, Eq, Hash)]
pub enum Pred {
    Even,
    Odd,
    None,
    All,
    Gt1,
}
impl Pred {
    pub fn eval(&self, x: i64) -> bool {
        match self {
            Pred::Even => x % 2 == 0,
            Pred::Odd => x % 2 != 0,
            Pred::None => false,
            Pred::All => true,
            Pred::Gt1 => x > 1,
        }
    }
}

/// What is under test (drives the reference semantics in the oracles).
#[derive(Clone, Debug, PartialEq, Eq, Hash)]
pub enum Op {
    FromIter(Vec<i64>),
    /// unbounded counter 1,2,3,...
    FromIterUnbounded,
    Interval(u64),
    Map,
    Filter(Pred),
    Scan(i64),
    Take(usize),
    Skip(usize),
    Merge(usize),
    Concat(usize),
    Combine(usize),
    Flatten,
    Share,
    /// real for_each behind a tap, over `inner` applied to puppet 0 (None = directly over puppet)
    ForEach(Option<Box<Op>>),
    /// two-stage composition: outer(inner(puppet))
    Comp(Box<Op>, Box<Op>),
    /// a named network of several operators over several puppets (see worlds::build_net)
    Net(&'static str),
}

impl Op {
    pub fn family(&self) -> String {
        match self {
            Op::FromIter(_) | Op::FromIterUnbounded => "from_iter".into(),
            Op::Interval(_) => "interval".into(),
            Op::Map => "map".into(),
            Op::Filter(_) => "filter".into(),
            Op::Scan(_) => "scan".into(),
            Op::Take(_) => "take".into(),
            Op::Skip(_) => "skip".into(),
            Op::Merge(_) => "merge".into(),
            Op::Concat(_) => "concat".into(),
            Op::Combine(_) => "combine".into(),
            Op::Flatten => "flatten".into(),
            Op::Share => "share".into(),
            Op::ForEach(None) => "for_each".into(),
            Op::ForEach(Some(o)) => format!("for_each.{}", o.family()),
            Op::Comp(a, b) => format!("{}.{}", a.family(), b.family()),
            Op::Net(n) => format!("net:{n}"),
        }
    }
    pub fn arity(&self) -> usize {
        match self {
            Op::Merge(n) | Op::Concat(n) | Op::Combine(n) => *n,
            Op::FromIter(_) | Op::FromIterUnbounded | Op::Interval(_) => 0,
            Op::Net(_) => 2,
            _ => 1,
        }
    }
}

pub type BuildFn = Arc<dyn Fn() -> WorldRt + Send + Sync>;

#[derive(Clone)]
pub struct WorldSpec {
    pub name: String,
    pub op: Op,
    pub cfg: Cfg,
    pub build: BuildFn,
}

impl WorldSpec {
    pub fn family(&self) -> String {
        self.op.family()
    }
}

pub fn enabled_events(ex: &Exec) -> Vec<EvId> {
    let cfg = &ex.cfg;
    let mut v = Vec::with_capacity(12);
    for (p, st) in ex.probes.iter().enumerate() {
        let p = p as u8;
        if !st.can_act() && cfg.pull_after_end && st.has_tb && !st.sent_terminal && st.recv_terminal {
            v.push(EvId::ProbePull(p));
        }
        if st.can_act() {
            if cfg.probe_pull && (!cfg.pull_discipline || st.pulls_sent < st.hs_recv + st.data_recv)
            {
                v.push(EvId::ProbePull(p));
            }
            v.push(EvId::ProbeTerm(p));
            if cfg.probe_err {
                v.push(EvId::ProbeErr(p));
            }
        }
    }
    let nsub = ex.probes.iter().filter(|p| p.subscribed).count();
    if nsub < cfg.max_probes as usize {
        v.push(EvId::Subscribe(nsub as u8));
    }
    for (s, st) in ex.subs.iter().enumerate() {
        let s = s as u16;
        if st.over() {
            continue;
        }
        if !st.greeted {
            v.push(EvId::SubGreet(s));
            continue;
        }
        let mode = cfg.modes.get(st.puppet as usize).copied().unwrap_or(PMode::Mixed);
        let budget = st.sent_data < cfg.data_budget;
        if mode != PMode::Pullable {
            if budget {
                v.push(EvId::SubData(s));
            }
            v.push(EvId::SubTerm(s));
            if cfg.puppet_err {
                v.push(EvId::SubErr(s));
            }
        }
        if st.deferred > 0 {
            if budget {
                v.push(EvId::SubAnsData(s));
            }
            v.push(EvId::SubAnsTerm(s));
            if cfg.puppet_err && mode == PMode::Pullable {
                v.push(EvId::SubAnsErr(s));
            }
        }
    }
    for (t, st) in ex.tasks.iter().enumerate() {
        if st.alive {
            v.push(EvId::Fire(t as u8));
            v.push(EvId::Poll(t as u8));
        }
    }
    v
}

fn perform(ev: EvId) {
    match ev {
        EvId::Subscribe(p) => {
            let f = world().borrow().subscribe.clone().expect("world has no subscribe");
            f(p);
        },
        EvId::ProbePull(p) => probe_driver(p).expect("probe").act(opt::PULL),
        EvId::ProbeTerm(p) => probe_driver(p).expect("probe").act(opt::TERM),
        EvId::ProbeErr(p) => probe_driver(p).expect("probe").act(opt::ERR),
        EvId::SubGreet(s)
        | EvId::SubData(s)
        | EvId::SubTerm(s)
        | EvId::SubErr(s)
        | EvId::SubAnsData(s)
        | EvId::SubAnsTerm(s)
        | EvId::SubAnsErr(s) => {
            let j = with(|ex| ex.subs[s as usize].puppet);
            puppet_driver(j).expect("puppet").drive(s, ev)
        },
        EvId::Fire(t) => nursery::fire(t),
        EvId::Poll(t) => nursery::poll(t),
    }
}

/// Run one top-level event under catch_unwind. Returns false if the execution must stop.
pub fn step(ev: EvId) -> bool {
    rec_noabort(Ev::Top(ev));
    let r = catch_unwind(AssertUnwindSafe(|| perform(ev)));
    match r {
        Ok(()) => true,
        Err(payload) => {
            if payload.is::<HarnessAbort>() {
                false
            } else {
                let msg = if let Some(s) = payload.downcast_ref::<&str>() {
                    s.to_string()
                } else if let Some(s) = payload.downcast_ref::<String>() {
                    s.clone()
                } else {
                    "<non-string panic payload>".to_string()
                };
                with(|ex| {
                    ex.panicked = true;
                    ex.panic_msg = Some(msg);
                    ex.trace.push(Ev::Panic);
                });
                false
            }
        },
    }
}

fn rec_noabort(ev: Ev) {
    with(|ex| ex.trace.push(ev));
}

/// Run one complete execution of `spec` following `script` (then choice 0 everywhere).
pub fn run_world(spec: &WorldSpec, script: &[u16], script_n: &[u16], strict: bool) -> Exec {
    run_world_with(spec, script, script_n, strict, None)
}

/// `guide`: replay a projected history by identity (C13 solo runs) instead of a script.
pub fn run_world_with(
    spec: &WorldSpec,
    script: &[u16],
    script_n: &[u16],
    strict: bool,
    guide: Option<std::collections::VecDeque<GuideRec>>,
) -> Exec {
    let guided = guide.is_some();
    let ex = Arc::new(Mutex::new({
        let mut e = Exec::new(spec.cfg.clone(), script.to_vec(), script_n.to_vec(), strict);
        e.guide = guide;
        e
    }));
    install(ex.clone());
    nursery::reset();
    let rt = Rc::new(RefCell::new(WorldRt::default()));
    WORLD.with(|w| *w.borrow_mut() = Some(rt.clone()));
    let built = catch_unwind(AssertUnwindSafe(|| (spec.build)()));
    match built {
        Ok(b) => {
            let mut w = rt.borrow_mut();
            w.subscribe = b.subscribe;
            w.nursery = b.nursery;
            w.extra = b.extra;
        },
        Err(_) => {
            with(|ex| ex.fault = Some(Fault::Internal("world construction panicked".into())));
        },
    }
    let mut go = with(|ex| ex.fault.is_none()) && step(EvId::Subscribe(0));
    let e = spec.cfg.e;
    let mut n_ev = 0;
    while go && n_ev < e {
        let menu = with(|ex| enabled_events(ex));
        if menu.is_empty() {
            break;
        }
        if guided && with(|ex| ex.guide.as_ref().map(|g| g.is_empty()).unwrap_or(true)) {
            break;
        }
        let r = catch_unwind(AssertUnwindSafe(|| {
            let idx = with(|ex| {
                ex.menus.push(menu.clone());
                (ex.menus.len() - 1) as u32
            });
            choose_ex(menu.len(), Kind::Event, What::Event, &[], idx, false)
        }));
        let k = match r {
            Ok(k) => k,
            Err(_) => break,
        };
        go = step(menu[k]);
        n_ev += 1;
    }
    // break reference cycles between harness actors and the code under test
    {
        let w = rt.borrow();
        for p in w.probes.iter().flatten() {
            p.clear();
        }
        for p in w.puppets.iter().flatten() {
            p.clear();
        }
    }
    WORLD.with(|w| *w.borrow_mut() = None);
    {
        let mut w = rt.borrow_mut();
        w.subscribe = None;
        w.probes.clear();
        w.puppets.clear();
        w.extra.clear();
        w.nursery = None;
    }
    nursery::reset();
    uninstall();
    drop(rt);
    match Arc::try_unwrap(ex) {
        Ok(m) => m.into_inner().unwrap_or_else(|e| e.into_inner()),
        Err(_) => panic!("execution context leaked"),
    }
}
