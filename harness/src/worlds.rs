//! World constructors: the real callbag operators applied to puppets, observed by probes.

use crate::actors::*;
use crate::exec::*;
use crate::nursery::MockNursery;
use crate::world::*;
use callbag::{Message, Source};
use std::sync::Arc;
use std::time::Duration;

pub const CALL_NEXT: u8 = 0;
pub const CALL_MAP: u8 = 1;
pub const CALL_FILTER: u8 = 2;
pub const CALL_SCAN: u8 = 3;
pub const CALL_FOREACH: u8 = 4;

pub fn call(id: u8, arg: i64) {
    if has_current() {
        with(|ex| {
            ex.trace.push(Ev::Call(id, arg));
            while ex.calls.len() <= id as usize {
                ex.calls.push(0);
            }
            ex.calls[id as usize] += 1;
        });
    }
}

/// Iterable with an instrumented iterator (records every `next()`).
#[derive(Clone, Debug)]
pub struct Xs(pub Arc<Vec<i64>>, pub bool);

#[derive(Debug)]
pub struct XsIter {
    data: Arc<Vec<i64>>,
    unbounded: bool,
    pos: usize,
}

impl IntoIterator for Xs {
    type Item = i64;
    type IntoIter = XsIter;
    fn into_iter(self) -> XsIter {
        XsIter { data: self.0, unbounded: self.1, pos: 0 }
    }
}

pub const UNBOUNDED_LIMIT: usize = 64;

impl Iterator for XsIter {
    type Item = i64;
    /// exact, like the iterators of std collections (code that looks at the hint must not be
    /// able to change what the sink sees)
    fn size_hint(&self) -> (usize, Option<usize>) {
        if self.unbounded {
            (usize::MAX, None)
        } else {
            let left = self.data.len().saturating_sub(self.pos);
            (left, Some(left))
        }
    }
    fn next(&mut self) -> Option<i64> {
        call(CALL_NEXT, self.pos as i64);
        if self.unbounded {
            self.pos += 1;
            if self.pos > UNBOUNDED_LIMIT {
                fault(Fault::Divergence);
            }
            Some(self.pos as i64)
        } else {
            let r = self.data.get(self.pos).copied();
            self.pos += 1;
            r
        }
    }
}

pub type Src = Arc<Source<i64>>;

pub fn map_fn(x: i64) -> i64 {
    call(CALL_MAP, x);
    x + 100
}
pub fn scan_fn(acc: i64, x: i64) -> i64 {
    call(CALL_SCAN, x);
    acc * 10 + x
}

/// Apply a unary operator of the crate to `src`.
pub fn apply_unary(op: &Op, src: Src) -> Src {
    match op {
        Op::Map => Arc::new(callbag::map(map_fn)(src)),
        Op::Filter(p) => {
            let p = p.clone();
            Arc::new(callbag::filter(move |x: &i64| {
                call(CALL_FILTER, *x);
                p.eval(*x)
            })(src))
        },
        Op::Scan(seed) => Arc::new(callbag::scan(scan_fn, *seed)(src)),
        Op::Take(n) => Arc::new(callbag::take(*n)(src)),
        Op::Skip(n) => Arc::new(callbag::skip(*n)(src)),
        Op::Comp(outer, inner) => apply_unary(outer, apply_unary(inner, src)),
        other => panic!("not a unary operator: {:?}", other),
    }
}

fn probe_world<T: Send + Sync + 'static>(out: Arc<Source<T>>, recf: RecFn<T>) -> WorldRt {
    WorldRt {
        subscribe: Some(std::rc::Rc::new(move |p| {
            let pr = Probe::new(p, recf.clone());
            let sink = pr.sink();
            out(Message::Handshake(sink));
        })),
        ..Default::default()
    }
}

fn puppets(n: usize) -> Vec<Src> {
    (0..n).map(|j| Arc::new(int_puppet(j as u8).source()) as Src).collect()
}

pub fn build_for(op: &Op) -> BuildFn {
    let op = op.clone();
    Arc::new(move || build(&op))
}

fn build(op: &Op) -> WorldRt {
    match op {
        Op::FromIter(xs) => {
            let out = Arc::new(callbag::from_iter(Xs(Arc::new(xs.clone()), false)));
            probe_world(out, rec_i64())
        },
        Op::FromIterUnbounded => {
            let out = Arc::new(callbag::from_iter(Xs(Arc::new(vec![]), true)));
            probe_world(out, rec_i64())
        },
        Op::Interval(us) => {
            // the parameter is the period in MICROseconds (sub-millisecond periods are periods too)
            let out = Arc::new(callbag::interval(Duration::from_micros(*us), MockNursery));
            probe_world(out, rec_usize())
        },
        Op::Map | Op::Filter(_) | Op::Scan(_) | Op::Take(_) | Op::Skip(_) | Op::Comp(..) => {
            let p = puppets(1);
            probe_world(apply_unary(op, p[0].clone()), rec_i64())
        },
        Op::Merge(n) => {
            let out: Src = Arc::new(callbag::merge(puppets(*n).into_boxed_slice()));
            probe_world(out, rec_i64())
        },
        Op::Concat(n) => {
            let out: Src = Arc::new(callbag::concat(puppets(*n).into_boxed_slice()));
            probe_world(out, rec_i64())
        },
        Op::Combine(n) => {
            let p = puppets(*n);
            match n {
                1 => probe_world(
                    Arc::new(callbag::combine((p[0].clone(),))),
                    Arc::new(|x: &(i64,)| Val::T(1, [x.0, 0, 0])),
                ),
                2 => probe_world(
                    Arc::new(callbag::combine((p[0].clone(), p[1].clone()))),
                    Arc::new(|x: &(i64, i64)| Val::T(2, [x.0, x.1, 0])),
                ),
                3 => probe_world(
                    Arc::new(callbag::combine((p[0].clone(), p[1].clone(), p[2].clone()))),
                    Arc::new(|x: &(i64, i64, i64)| Val::T(3, [x.0, x.1, x.2])),
                ),
                _ => panic!("combine arity"),
            }
        },
        Op::Flatten => {
            let pool = with(|ex| ex.cfg.inner_pool.max(1));
            let inners: Vec<Arc<Puppet<i64>>> = (1..=pool).map(int_puppet).collect();
            let outer: Arc<Puppet<Src>> = Puppet::new(
                0,
                Box::new(move |s, _k| {
                    let menu: Vec<u8> = (1..=pool).map(|i| opt::INNER0 + i).collect();
                    let c = choose_opt(Kind::Event, What::Pick(s), &menu);
                    let j = c - opt::INNER0;
                    let src: Src = Arc::new(inners[(j - 1) as usize].source());
                    (src, Val::Src(j))
                }),
            );
            let out: Src = Arc::new(callbag::flatten(outer.source()));
            probe_world(out, rec_i64())
        },
        Op::Share => {
            let p = puppets(1);
            let out: Src = Arc::new(callbag::share(p[0].clone()));
            probe_world(out, rec_i64())
        },
        Op::Net(name) => build_net(name),
        Op::ForEach(inner) => {
            let inner = inner.clone();
            let fe = callbag::for_each(|x: i64| call(CALL_FOREACH, x));
            let pup = int_puppet(0);
            WorldRt {
                subscribe: Some(std::rc::Rc::new(move |p| {
                    with(|ex| ex.probe(p).subscribed = true);
                    let src: Src = Arc::new(pup.source());
                    let src = match &inner {
                        Some(op) => apply_unary(op, src),
                        None => src,
                    };
                    let tapped: Src = Arc::new(tap(p, src, rec_i64()));
                    fe(tapped);
                })),
                ..Default::default()
            }
        },
    }
}

/// Default configuration for a world of `op` at bounds (e, d).
pub fn spec(op: Op, e: u32, d: u32) -> WorldSpec {
    let mut cfg = Cfg { e, d, ..Default::default() };
    match &op {
        Op::Merge(n) | Op::Concat(n) | Op::Combine(n) if *n >= 2 => cfg.nested_events = true,
        Op::Flatten | Op::Net(_) => cfg.nested_events = true,
        // single-upstream worlds: the only possible nested upstream event is a re-entrant one
        Op::Map | Op::Filter(_) | Op::Scan(_) | Op::Take(_) | Op::Skip(_) | Op::Comp(..) => {
            cfg.nested_events = true;
            cfg.self_reentrancy = true;
        },
        Op::Merge(1) | Op::Concat(1) | Op::Combine(1) => {
            cfg.nested_events = true;
            cfg.self_reentrancy = true;
        },
        _ => {},
    }
    match &op {
        Op::Merge(_) => cfg.late_greet = true,
        Op::Flatten => cfg.inner_pool = 2,
        Op::ForEach(_) => {
            cfg.probe_pull = false;
        },
        Op::Interval(_) => {
            cfg.spawn_fail = true;
        },
        _ => {},
    }
    let name = format!("{:?}", op);
    WorldSpec { name, build: build_for(&op), op, cfg }
}

fn rec_t2() -> RecFn<(i64, i64)> {
    Arc::new(|x: &(i64, i64)| Val::T(2, [x.0, x.1, 0]))
}

pub const NETS: &[&str] = &[
    "take2(merge2)",
    "merge2(map,skip1)",
    "concat2(take1,.)",
    "take2(concat2)",
    "skip1(combine2)",
    "take1(flatten)",
    "share(merge2)",
    "merge2(.,concat2)",
    "combine2(filter,take1)",
    "concat2(sh,sh)",
    "concat2(fi,fi)",
    "merge2(fi,fi)",
    "merge2(sh,sh)",
    "combine2(sh,sh)",
    "for_each(merge2)",
    "for_each(concat2)",
    "merge2(merge2,.)",
];

/// Networks of several real operators over puppets: the protocol oracles (C01-C05, C17) are
/// operator-agnostic, so interactions between operators are explored with the same monitors.
fn build_net(name: &str) -> WorldRt {
    let p = puppets(3);
    let b = |v: Vec<Src>| v.into_boxed_slice();
    match name {
        "take2(merge2)" => probe_world(Arc::new(callbag::take(2)(Arc::new(callbag::merge(b(vec![p[0].clone(), p[1].clone()]))) as Src)), rec_i64()),
        "merge2(map,skip1)" => probe_world(
            Arc::new(callbag::merge(b(vec![apply_unary(&Op::Map, p[0].clone()), apply_unary(&Op::Skip(1), p[1].clone())]))),
            rec_i64(),
        ),
        "concat2(take1,.)" => probe_world(Arc::new(callbag::concat(b(vec![apply_unary(&Op::Take(1), p[0].clone()), p[1].clone()]))), rec_i64()),
        "take2(concat2)" => probe_world(Arc::new(callbag::take(2)(Arc::new(callbag::concat(b(vec![p[0].clone(), p[1].clone()]))) as Src)), rec_i64()),
        "skip1(combine2)" => {
            let c: Arc<Source<(i64, i64)>> = Arc::new(callbag::combine((p[0].clone(), p[1].clone())));
            probe_world(Arc::new(callbag::skip(1)(c)), rec_t2())
        },
        "take1(flatten)" => {
            let pool = 2u8;
            let inners: Vec<Arc<Puppet<i64>>> = (1..=pool).map(int_puppet).collect();
            let outer: Arc<Puppet<Src>> = Puppet::new(
                0,
                Box::new(move |s, _k| {
                    let menu: Vec<u8> = (1..=pool).map(|i| opt::INNER0 + i).collect();
                    let c = choose_opt(Kind::Event, What::Pick(s), &menu);
                    let j = c - opt::INNER0;
                    let src: Src = Arc::new(inners[(j - 1) as usize].source());
                    (src, Val::Src(j))
                }),
            );
            let f: Src = Arc::new(callbag::flatten(outer.source()));
            probe_world(Arc::new(callbag::take(1)(f)), rec_i64())
        },
        "share(merge2)" => {
            let m: Src = Arc::new(callbag::merge(b(vec![p[0].clone(), p[1].clone()])));
            probe_world(Arc::new(callbag::share(m)), rec_i64())
        },
        "merge2(.,concat2)" => {
            let c: Src = Arc::new(callbag::concat(b(vec![p[1].clone(), p[2].clone()])));
            probe_world(Arc::new(callbag::merge(b(vec![p[0].clone(), c]))), rec_i64())
        },
        "combine2(filter,take1)" => {
            let c: Arc<Source<(i64, i64)>> =
                Arc::new(callbag::combine((apply_unary(&Op::Filter(Pred::Odd), p[0].clone()), apply_unary(&Op::Take(1), p[1].clone()))));
            probe_world(c, rec_t2())
        },
        "concat2(sh,sh)" => {
            // the same shared source listed twice: the second attach happens inside the terminal
            // fan-out of the first run
            let sh: Src = Arc::new(callbag::share(p[0].clone()));
            probe_world(Arc::new(callbag::concat(b(vec![sh.clone(), sh]))), rec_i64())
        },
        "concat2(fi,fi)" => {
            let fi: Src = Arc::new(callbag::from_iter(Xs(Arc::new(vec![1, 2]), false)));
            probe_world(Arc::new(callbag::concat(b(vec![fi.clone(), fi]))), rec_i64())
        },
        "merge2(fi,fi)" => {
            let fi: Src = Arc::new(callbag::from_iter(Xs(Arc::new(vec![1, 2]), false)));
            probe_world(Arc::new(callbag::merge(b(vec![fi.clone(), fi]))), rec_i64())
        },
        "merge2(sh,sh)" => {
            let sh: Src = Arc::new(callbag::share(p[0].clone()));
            probe_world(Arc::new(callbag::merge(b(vec![sh.clone(), sh]))), rec_i64())
        },
        "combine2(sh,sh)" => {
            let sh: Src = Arc::new(callbag::share(p[0].clone()));
            let c: Arc<Source<(i64, i64)>> = Arc::new(callbag::combine((sh.clone(), sh)));
            probe_world(c, rec_t2())
        },
        "for_each(merge2)" | "for_each(concat2)" => {
            // the crate's own sink (it panics if it is handed Data before a Handshake) behind a tap
            let inner: Src = if name.contains("merge2") {
                Arc::new(callbag::merge(b(vec![p[0].clone(), p[1].clone()])))
            } else {
                Arc::new(callbag::concat(b(vec![p[0].clone(), p[1].clone()])))
            };
            let fe = callbag::for_each(|x: i64| call(CALL_FOREACH, x));
            WorldRt {
                subscribe: Some(std::rc::Rc::new(move |q| {
                    with(|ex| ex.probe(q).subscribed = true);
                    let tapped: Src = Arc::new(tap(q, inner.clone(), rec_i64()));
                    fe(tapped);
                })),
                ..Default::default()
            }
        },
        "merge2(merge2,.)" => {
            let inner: Src = Arc::new(callbag::merge(b(vec![p[0].clone(), p[1].clone()])));
            probe_world(Arc::new(callbag::merge(b(vec![inner, p[2].clone()]))), rec_i64())
        },
        other => panic!("unknown net {other}"),
    }
}
