#!/usr/bin/env python3
"""Collects confirmed seeded changes into /verif/seeded/<name>/ (patch.diff, demo.rs, meta.json).
usage: mkseeded.py <ID> <k> <scratch_results_file>"""
import sys, os, re, json, shutil
ID, k, resf = sys.argv[1], sys.argv[2], sys.argv[3]
out = f"/tmp/seed/wt-{ID}/out"
name = f"{ID}-{k}"
d = f"/verif/seeded/{name}"
os.makedirs(d, exist_ok=True)
shutil.copy(f"{out}/change_{k}.diff", f"{d}/patch.diff")
shutil.copy(f"{out}/demo_{k}.rs", f"{d}/demo.rs")
notes = open(f"{out}/notes_{k}.md").read()
conf = open(f"/tmp/seed/results/{name}.txt").read()
suite_ok = "failing tests (excluding demo) = 0" in conf
demo_fail = bool(re.search(r"with-change: demo result: test result: FAILED", conf))
demo_pass = bool(re.search(r"without-change: demo result: test result: ok", conf))
# matrix
txt = open(resf).read()
m = re.search(rf"=== {name}\n(.*?)(?:\n===|\nALL|\Z)", txt, re.S)
caught = {}
if m:
    for line in m.group(1).splitlines():
        mm = re.match(r"(C\d+) exit=(\d) ?(.*)", line)
        if mm and mm.group(2) == "1":
            caught[mm.group(1)] = mm.group(3).split()
        elif mm and mm.group(2) == "2":
            caught[mm.group(1)] = ["MACHINERY: " + mm.group(3)]
files = sorted(set(re.findall(r"^\+\+\+ b/(\S+)", open(f"{d}/patch.diff").read(), re.M)))
meta = {
  "name": name,
  "breaks_property": ID,
  "files": files,
  "origin": "independent sub-agent given only the property text and a scratch worktree (nothing from /verif)",
  "what_and_needs": notes.strip(),
  "confirmed_by_me": {
     "existing_suite_passes_with_change": suite_ok,
     "demo_fails_with_change": demo_fail,
     "demo_passes_without_change": demo_pass,
     "how": "scratch worktree /tmp/seed/wt-%s: git apply patch; cp demo tests/seed_demo.rs; cargo build --offline --features tracing; cargo test --offline --workspace --no-fail-fast; git checkout -- src; cargo test --offline --test seed_demo" % ID,
  },
  "checks_run": "./seedrun_scratch patch.diff (quick tier of every check against a scratch copy of /repo with the patch applied)",
  "caught_by": caught,
  "caught_by_owner_check": ID in caught,
}
json.dump(meta, open(f"{d}/meta.json","w"), indent=1)
print(name, "suite_ok", suite_ok, "demo_fail", demo_fail, "demo_pass", demo_pass, "caught_by", sorted(caught))
