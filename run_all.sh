#!/bin/bash
# usage: ./run_all.sh quick|thorough   -- runs every check at that tier, one line per check;
# thorough evidence is copied to evidence_thorough/ (evidence/ is rewritten by the next run)
TIER=${1:-quick}
cd "$(dirname "$0")"
mkdir -p evidence_thorough
for id in C01 C02 C03 C04 C05 C06 C07 C08 C09 C10 C11 C12 C13 C14 C15 C16 C17 C18 C19 C20; do
  s=$(date +%s)
  out=$(./check $id --tier $TIER 2>&1); rc=$?
  e=$(( $(date +%s) - s ))
  echo "$id rc=$rc ${e}s $(echo "$out" | grep -E "^$id $TIER:|^C06 $TIER|^C20 $TIER" | tail -1)"
  echo "$out" | grep -E "^(VIOLATION|KNOWN-FINDING|  )|MACHINERY" | head -20
  [ "$TIER" = "thorough" ] && cp evidence/$id.json evidence_thorough/$id.json
done
