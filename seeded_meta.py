#!/usr/bin/env python3
"""Builds /verif/seeded/<name>/meta.json from verify.log (written by seeded_verify.sh)."""
import sys, re, json, os
name = sys.argv[1]
d = f"/verif/seeded/{name}"
ID = name.split('-')[0]
log = open(f"{d}/verify.log").read()
notes = open(f"{d}/notes.md").read() if os.path.exists(f"{d}/notes.md") else ""
m = re.search(r"SUITE with-change: passed=(\d+) failed=(\d+)", log)
suite = (int(m.group(1)), int(m.group(2))) if m else None
dw = re.search(r"DEMO with-change: (.*)", log)
dwo = re.search(r"DEMO without-change: (.*)", log)
caught = {}
for line in log.split("CHECKS:")[-1].splitlines():
    mm = re.match(r"(C\d+) exit=(\d) ?(.*)", line)
    if mm and mm.group(2) == "1":
        caught[mm.group(1)] = mm.group(3).split()
    elif mm and mm.group(2) == "2":
        caught[mm.group(1)] = ["MACHINERY " + mm.group(3).strip()]
files = sorted(set(re.findall(r"^\+\+\+ b/(\S+)", open(f"{d}/patch.diff").read(), re.M)))
head = re.search(r"against /repo (\w+)", log)
meta = {
    "name": name,
    "breaks_property": ID,
    "files": files,
    "origin": "independent sub-agent given only the property text and its own scratch worktree of /repo (nothing from /verif); patch re-based by hand where /repo had moved on (fix: commits)",
    "what_it_is_and_what_it_needs_to_manifest": notes.strip(),
    "verified_against_repo_commit": head.group(1) if head else None,
    "confirmed": {
        "patch_applies": "PATCH-DOES-NOT-APPLY" not in log,
        "existing_suite_with_change": {"passed": suite[0], "failed": suite[1]} if suite else None,
        "demo_with_change": dw.group(1).strip() if dw else None,
        "demo_without_change": dwo.group(1).strip() if dwo else None,
        "how": "scratch worktree of /repo HEAD: git apply patch.diff; cargo build --offline --features tracing; cargo test --offline --workspace --no-fail-fast; cp demo.rs tests/seed_demo.rs; cargo test --offline [--features verif for C18/C19, --features tracing for C20] --test seed_demo; git checkout -- src; same demo command again",
    },
    "checks_run": "every quick check (./check <ID> --tier quick) against a scratch copy of /repo with the patch applied (./seedrun_scratch patch.diff); C20 only for the C20 seeds",
    "caught_by": caught,
    "caught_by_owner_check": ID in caught,
}
json.dump(meta, open(f"{d}/meta.json", "w"), indent=1)
print(name, "suite", suite, "demo:", (dw.group(1)[:45] if dw else None), "|", (dwo.group(1)[:35] if dwo else None), "caught_by", sorted(caught))
