#!/usr/bin/env python3
"""Prints the markdown table of seeded changes vs. the checks that catch them (from seeded/*/meta.json)."""
import json, glob, os, re
rows=[]
for f in sorted(glob.glob('/verif/seeded/*/meta.json')):
    m=json.load(open(f))
    notes=m.get('what_it_is_and_what_it_needs_to_manifest','')
    first=[l for l in notes.splitlines() if l.strip() and not l.startswith('#')]
    title=[l for l in notes.splitlines() if l.startswith('#')]
    t=(title[0].lstrip('# ').strip() if title else (first[0] if first else ''))[:110]
    c=m['caught_by']
    owner='yes' if m['caught_by_owner_check'] else '**no**'
    s=m['confirmed'].get('existing_suite_with_change') or {}
    ok = m['confirmed'].get('patch_applies') and s.get('failed')==0 and 'FAILED' in (m['confirmed'].get('demo_with_change') or '') and 'ok' in (m['confirmed'].get('demo_without_change') or '')
    rows.append(f"| {m['name']} | {', '.join(m['files'])} | {t} | {'yes' if ok else 'NO'} | {owner} | {', '.join(sorted(c)) or '—'} |")
print("| seed | file | change | confirmed (suite passes, demo fails/passes) | caught by its own check | caught by (quick tier) |")
print("|---|---|---|---|---|---|")
print("\n".join(rows))
