#!/bin/bash
# usage: seeded_verify.sh <lane> <name>...   -- re-verifies seeded changes against the CURRENT /repo HEAD:
#  (1) patch applies, crate builds (default + tracing), the existing suite passes with it,
#  (2) the demo fails with the change and passes without,
#  (3) every quick check is run against a scratch copy of /repo with the patch applied.
# Results: /verif/seeded/<name>/{verify.log,meta.json}.  Scratch: /tmp/seedverify (remove when done).
LANE=$1; shift
WT=/tmp/seedverify/wt-$LANE
S=/tmp/seedverify/run-$LANE
mkdir -p /tmp/seedverify
SNAP=/tmp/seedverify/snap-$LANE
mkdir -p $SNAP; rsync -a --delete --exclude repo /verif/harness/ $SNAP/harness/; cp /verif/check /verif/known_findings.json $SNAP/
export HARNESS_SRC=$SNAP/harness
if [ ! -d $WT ]; then git -C /repo worktree add -q --detach $WT HEAD; fi
git -C $WT checkout -q --detach $(git -C /repo rev-parse HEAD); git -C $WT checkout -q -- . ; rm -f $WT/tests/seed_demo.rs
for NAME in "$@"; do
  D=/verif/seeded/$NAME
  ID=${NAME%%-*}
  FEAT=""
  case $ID in C18|C19) FEAT="--features verif";; C20) FEAT="--features tracing";; esac
  LOG=$D/verify.log
  {
  echo "== $NAME against /repo $(git -C /repo rev-parse --short HEAD)"
  cd $WT
  if git apply $D/patch.diff; then
    cargo build --offline --features tracing 2>&1 | grep -E "^error" | head -3
    T=$(cargo test --offline --workspace --no-fail-fast 2>&1)
    NF=$(echo "$T" | grep -cE '^test .*FAILED')
    if [ "$NF" != "0" ]; then T=$(cargo test --offline --workspace --no-fail-fast 2>&1); NF=$(echo "$T" | grep -cE '^test .*FAILED'); echo "(suite re-run once: timer-based tests)"; fi
    NP=$(echo "$T" | grep -E "^test result" | awk '{s+=$4} END{print s+0}')
    echo "SUITE with-change: passed=$NP failed=$NF"
    if [ "$ID" = "C20" ]; then
      TT=$(cargo test --offline --workspace --no-fail-fast --features tracing 2>&1); echo "SUITE(tracing) with-change: failed=$(echo "$TT" | grep -cE '^test .*FAILED')"
    fi
    cp $D/demo.rs tests/seed_demo.rs
    T1=$(cargo test --offline $FEAT --test seed_demo 2>&1)
    echo "DEMO with-change: $(echo "$T1" | grep -E '^test result|^error' | head -2 | tr '\n' ' ')"
    git checkout -q -- src
    T2=$(cargo test --offline $FEAT --test seed_demo 2>&1)
    echo "DEMO without-change: $(echo "$T2" | grep -E '^test result|^error' | head -2 | tr '\n' ' ')"
    rm -f tests/seed_demo.rs
    echo "CHECKS:"
    cd /verif
    IDS="C01 C02 C03 C04 C05 C06 C07 C08 C09 C10 C11 C12 C13 C14 C15 C16 C17 C18 C19"
    [ "$ID" = "C20" ] && IDS="$IDS C20"
    SEEDRUN_DIR=$S ./seedrun_scratch $D/patch.diff $IDS
  else
    echo "PATCH-DOES-NOT-APPLY"
  fi
  } > $LOG 2>&1
  python3 /verif/seeded_meta.py $NAME
done
